"""Contract templates (.vc) -> single-file Verus input, rebuilt from /repo's working tree on every run.

A template is a Verus source file in which the *executable* items are not written out but
pulled from /repo by directives (`//@...` lines).  The extractor copies the item text byte for
byte and splices the contract clauses / ghost code of the directive at structural anchors.
Everything that is changed or dropped is logged (rules R1..R12 of DESIGN.md section 3.1).

Directives (top level)
  //@source NAME = path/under/repo.rs
  //@expand NAME = SRC :: macro_name!(args)            (R5; virtual source; `$_` in args matches any one token of the invocation)
  //@struct SRC :: Name [derive(A, B)] [private]        (R2 fields pub unless `private`, R3 derive filter)
  //@copy SRC :: kind name                              (item verbatim; kind = const|type|fn|enum|struct|static)
  //@file SRC                                           (whole file verbatim, e.g. inside `#[verifier::external] mod m { }`)
  //@fn SRC :: name          ... //@end                 (free function under contract)
  //@impl SRC :: <impl header> [#k]  ... //@end         (impl block; header compared token-wise)
  //@trait SRC :: Name       ... //@end
inside impl/trait
  //@extra                 following lines are inserted at the top of the block (spec items)
  //@fn name               function under contract (sections below)
  //@keep name             function copied verbatim, no contract
  //@inherit SRC :: Trait :: name   (impl blocks) default method `name` of trait `Trait` that this impl inherits is
                           instantiated here from the trait's text and put under contract (sections as for //@fn); R13
  //@noassoc               do not copy associated consts/types
  //@drop a b c            functions of the block that are emitted elsewhere (another block of the same unit)
  //@hoist NAME => FREE    (impl blocks) R14: the initialiser of associated const NAME is moved verbatim into a free
                           `pub const FREE` emitted before the block; the associated const becomes `= FREE`
                           (Verus rejects non-simple initialisers of trait consts and prescribes this form)
inside fn
  //@ret NAME              name the return value (R8)
  //@header                requires/ensures/decreases lines (spliced between signature and body)
  //@start                 ghost code at the start of the body
  //@tail                  ghost code before the tail expression (or at the end of a unit body)
  //@before `pat` [#k|all] ghost code before the k-th (all: every) occurrence of the token pattern
  //@after `pat` [#k|all]  ghost code after it
  //@loop K                invariant/decreases/ensures clauses of the K-th loop (source order)
  //@loop `pattern`        the same for the innermost loop whose text contains the token pattern (also with start | end)
  //@loop K start | //@loop K end      ghost code at start / end of that loop's body
  //@rewrite[Rn] `from` => `to` [#k|all]   token-level rewrite of the item text ($1..$9 = balanced wildcards)
  //@attr text             attribute line emitted before the fn
  //@external_body         body replaced by unimplemented!() + #[verifier::external_body]  (R10; assumption)
  //@sig `text`            replace the signature text (only for R4/R9-style generic removal; logged)
  //@dropbody              (trait blocks) the default body is removed from the trait declaration, `{..}` => `;` (R13);
                           every impl that inherits it must instantiate it with //@inherit
"""
import os
import re
from dataclasses import dataclass, field

from . import rsscan, macroexp
from .rsscan import lex, code_toks, split_items, match_close, norm, norm_generic_split, find_loops, ScanError


class TemplateError(Exception):
    """infrastructure problem: template or extraction cannot be completed -> exit 2, never an alarm"""


class Source:
    def __init__(self, name, path, text, line_map=None, root=None):
        self.root = root or self
        self.name = name
        self.path = path              # repo-relative path of the underlying file
        self.text = text
        self.line_map = line_map      # for expansions: output line (0-based) -> file line (1-based)
        self.toks = code_toks(lex(text))
        self.items = split_items(self.toks)
        self._nl = [i for i, ch in enumerate(text) if ch == "\n"]

    def line_of(self, off):
        import bisect
        ln = bisect.bisect_left(self._nl, off)      # 0-based line in self.text
        if self.line_map is not None:
            return self.line_map[min(ln, len(self.line_map) - 1)]
        return ln + 1


@dataclass
class FnSpec:
    name: str
    vc_line: int
    ret: str = None
    header: list = field(default_factory=list)        # (text, vc_line)
    start: list = field(default_factory=list)
    anchors: list = field(default_factory=list)       # (kind 'before'|'after', pat, k, lines, vc_line)
    loops: dict = field(default_factory=dict)         # K -> {'spec':[], 'start':[], 'end':[]}
    rewrites: list = field(default_factory=list)      # (rule, from, to, k, vc_line)
    attrs: list = field(default_factory=list)
    external_body: bool = False
    sig: str = None
    keep: bool = False
    tail: list = field(default_factory=list)
    dropbody: bool = False


class Out:
    """generated text with per-line origins"""
    def __init__(self):
        self.chunks = []     # (text, origin) ; origin = ('repo', path, line) | ('vc', line) | None

    def vc(self, text, line):
        self.chunks.append((text, ("vc", line)))

    def repo(self, src, a, b):
        """copy src.text[a:b], line by line so that every line carries its origin"""
        text = src.text[a:b]
        pos = a
        for piece in re.split(r"(?<=\n)", text):
            if piece:
                self.chunks.append((piece, ("repo", src.path, src.line_of(pos))))
                pos += len(piece)

    def raw(self, text):
        self.chunks.append((text, None))

    def finish(self):
        text = "".join(c for c, _ in self.chunks)
        origins = []
        cur_line_origin = None
        line_has = False
        for c, o in self.chunks:
            parts = c.split("\n")
            for idx, p in enumerate(parts):
                if idx > 0:
                    origins.append(cur_line_origin)
                    cur_line_origin = None
                    line_has = False
                if p.strip() and not line_has:
                    cur_line_origin = o
                    line_has = True
        origins.append(cur_line_origin)
        return text, origins


_pat_re = re.compile(r"`([^`]*)`")


def _parse_pat_args(rest, lineno):
    pats = _pat_re.findall(rest)
    tail = _pat_re.sub("", rest).replace("=>", " ").split()
    k = 1
    for w in tail:
        if w.startswith("#"):
            k = int(w[1:])
        elif w == "all":
            k = "all"
    return pats, k


class Log:
    def __init__(self):
        self.rules = []            # strings "R6 gcd: `a %= &b` => `a = a % &b`"
        self.lost_anchors = []     # strings
        self.dropped = []          # fns in selected blocks that are not under contract (R1)
        self.functions = []        # functions under contract: "path::fn"
        self.external = []         # external_body functions (assumptions)
        self.sources = set()
        self.canaries = 0
        self.new_functions = []
        self.ghost_origin = {}
        self.body_tokens = {}       # function under contract -> its body as a token list (to measure how much of it an edit rewrote)
        self.callees = {}           # function under contract -> names it calls (identifier followed by `(`) on the repository text
        self.derives = {}           # struct -> derive list on the repository text (a derive that disappears was replaced by hand-written code)
        self.trusted_text = {}      # external_body function -> digest of its repository text (the trust was given to that text)
        self.loop_shapes = {}       # function -> keywords of its loops in source order (for functions with loop clauses)      # contract line tag -> function whose body the ghost line is spliced into

    def rule(self, r, msg):
        self.rules.append("%s %s" % (r, msg))


def _match_wild(toks, i, pat):
    """match pattern (list of token texts, may contain $1..$9) at toks[i]; returns (end_index, captures) or None"""
    caps = {}
    j = i
    for pi, p in enumerate(pat):
        if re.fullmatch(r"\$[1-9]", p):
            nxt = pat[pi + 1] if pi + 1 < len(pat) else None
            s = j
            while j < len(toks):
                t = toks[j]
                if nxt is not None and t.text == nxt:
                    break
                if t.kind == "punct" and t.text in rsscan.OPEN:
                    j = match_close(toks, j) + 1
                    continue
                if t.kind == "punct" and t.text in rsscan.CLOSE:
                    break
                j += 1
            if nxt is None and j == s:
                return None
            caps[p] = (s, j)
        else:
            if j >= len(toks) or toks[j].text != p:
                return None
            j += 1
    return j, caps


def _pat_toks(pat):
    # `$1` lexes as `$`,`1`; merge
    raw = norm(pat)
    out = []
    i = 0
    while i < len(raw):
        if raw[i] == "$" and i + 1 < len(raw) and re.fullmatch(r"[1-9]", raw[i + 1]):
            out.append("$" + raw[i + 1]); i += 2
        else:
            out.append(raw[i]); i += 1
    return out


def _find_all(toks, pat):
    res = []
    i = 0
    while i < len(toks):
        m = _match_wild(toks, i, pat)
        if m:
            res.append((i, m[0], m[1]))
            i = max(m[0], i + 1)
        else:
            i += 1
    return res


def emit_fn(out, src, item, spec, log, where, canary=False, strip=None, loop_shapes=None):
    """item: rsscan.Item (kind fn) whose tokens index into src.text; spec: FnSpec"""
    toks = item.toks
    qual = "%s::%s" % (where, item.name)
    if spec.keep:
        out.repo(src, item.start, item.end)
        out.raw("\n")
        return
    log.functions.append(qual)
    if strip and qual.replace(" ", "") in strip:
        # fallback after a front-end error inside this function's ghost code: keep the contract (header), drop the hints
        spec.start, spec.tail, spec.anchors, spec.loops = [], [], [], {}
        log.lost_anchors.append("%s: in-body ghost code stripped (it no longer fits the function body)" % qual)
    for sec in [spec.start, spec.tail] + [a[3] for a in spec.anchors] + [v for d in spec.loops.values() for v in d.values()]:
        for (_t, vline) in sec:
            log.ghost_origin[vline] = qual.replace(" ", "")
    edits = []   # (char_a, char_b, kind, payload) ; a==b for insertions. payload list of (text, vc_line)
    has_body = item.body_open >= 0
    if has_body:
        bt = toks[item.body_open:item.body_close + 1]
        log.body_tokens[qual.replace(" ", "")] = [t.text for t in bt]
        log.callees[qual.replace(" ", "")] = sorted({bt[k].text for k in range(len(bt) - 1) if bt[k].kind == "ident" and bt[k + 1].text in ("(", "!") and bt[k].text not in ("if", "while", "match", "for", "return", "in", "Some", "Ok", "Err", "Self", "assert", "debug_assert")})
    if spec.dropbody:
        if not has_body:
            raise TemplateError("%s: dropbody given but the function has no body" % qual)
        edits.append((toks[item.body_open].start, toks[item.body_close].end, "replace", [(";", spec.vc_line)]))
        log.rule("R13", "%s: default body removed from the trait declaration (instantiated in each inheriting impl)" % qual)
        toks = toks[:item.body_open + 1]      # signature tokens + the `{` where the header goes (replaced by `;`)
        has_body = False
    if canary and has_body and not spec.external_body and not spec.keep:
        log.canaries += 1
        spec.start = [("        proof { assert(false); } // CANARY %d fn %s" % (log.canaries, item.name), spec.vc_line)] + list(spec.start)
    if not has_body and (spec.start or spec.anchors or spec.loops):
        raise TemplateError("%s has no body but the contract has body sections" % qual)
    sig_end_tok = item.body_open if has_body else len(toks) - 1      # index of `{` or of `;`
    sig_end = toks[sig_end_tok].start
    # ---- rewrites (token ranges) ----
    for (rule, frm, to, k, vline) in spec.rewrites:
        pat = _pat_toks(frm)
        occ = _find_all(toks[item.attrs_end:], pat)
        occ = [(a + item.attrs_end, b + item.attrs_end, {kk: (x + item.attrs_end, y + item.attrs_end) for kk, (x, y) in c.items()}) for a, b, c in occ]
        if not occ or (k != "all" and k > len(occ)):
            log.lost_anchors.append("%s: rewrite[%s] `%s` not found" % (qual, rule, frm))
            continue
        chosen = occ if k == "all" else [occ[k - 1]]
        for (a, b, caps) in chosen:
            text = to
            for name, (x, y) in caps.items():
                text = text.replace(name, src.text[toks[x].start:toks[y - 1].end] if y > x else "")
            edits.append((toks[a].start, toks[b - 1].end, "replace", [(text, vline)]))
        log.rule(rule, "%s: `%s` => `%s`%s" % (qual, frm, to, "" if k == 1 else " (%s)" % ("all" if k == "all" else "#%d" % k)))
    # ---- return name ----
    if spec.ret:
        depth = angle = 0
        arrow = None
        for i in range(item.attrs_end, sig_end_tok):
            t = toks[i]
            if t.kind != "punct":
                if t.text == "where" and depth == 0 and angle <= 0:
                    break
                continue
            if t.text in "([":
                depth += 1
            elif t.text in ")]":
                depth -= 1
            elif t.text == "<":
                angle += 1
            elif t.text == ">":
                angle -= 1
            elif t.text == ">>":
                angle -= 2
            elif t.text == "->" and depth == 0 and angle <= 0:
                arrow = i
        if arrow is None:
            raise TemplateError("%s: `ret` given but the signature has no return type" % qual)
        j = arrow + 1
        end = sig_end_tok
        d = a2 = 0
        for i in range(j, sig_end_tok):
            t = toks[i]
            if t.text in "([" and t.kind == "punct":
                d += 1
            elif t.text in ")]" and t.kind == "punct":
                d -= 1
            elif t.text == "where" and d == 0:
                end = i
                break
        edits.append((toks[j].start, toks[j].start, "insert", [("(%s: " % spec.ret, spec.vc_line)]))
        edits.append((toks[end - 1].end, toks[end - 1].end, "insert", [(")", spec.vc_line)]))
        log.rule("R8", "%s: return value named `%s`" % (qual, spec.ret))
    # ---- header ----
    if spec.header:
        edits.append((sig_end, sig_end, "insert", [("\n", None)] + [(l + "\n", v) for l, v in spec.header]))
    if spec.sig is not None:
        edits.append((toks[item.attrs_end].start, toks[sig_end_tok - 1].end, "replace", [(spec.sig, spec.vc_line)]))
        log.rule("R4", "%s: signature replaced by `%s`" % (qual, spec.sig))
    if spec.external_body:
        log.external.append(qual)
        import hashlib
        log.trusted_text[qual.replace(" ", "")] = hashlib.sha256(" ".join(t.text for t in item.toks).encode()).hexdigest()[:16]
        log.rule("R10", "%s: body replaced by external_body (trusted contract)" % qual)
        if has_body:
            edits.append((toks[item.body_open].start, toks[item.body_close].end, "replace", [("{ unimplemented!() }", spec.vc_line)]))
    elif has_body:
        body = toks[item.body_open:item.body_close + 1]
        if spec.start:
            p = toks[item.body_open].end
            edits.append((p, p, "insert", [("\n", None)] + [(l + "\n", v) for l, v in spec.start]))
        for (kind, pat, k, lines, vline) in spec.anchors:
            occ = _find_all(body, _pat_toks(pat))
            if not occ or (k != "all" and k > len(occ)):
                log.lost_anchors.append("%s: anchor %s `%s` #%s not found" % (qual, kind, pat, k))
                continue
            # `all`: the ghost code goes before/after every occurrence (e.g. every `break;`), however many there are
            for (a, b, _) in (occ if k == "all" else [occ[k - 1]]):
                p = body[a].start if kind == "before" else body[b - 1].end
                edits.append((p, p, "insert", [("\n", None)] + [(l + "\n", v) for l, v in lines]))
        if spec.tail:
            ti = rsscan.tail_start(body)
            p = body[ti].start
            edits.append((p, p, "insert", [(l + "\n", v) for l, v in spec.tail]))
        if spec.loops:
            loops = find_loops(body)
            shape = [body[kw].text for (kw, _o, _c) in loops]
            log.loop_shapes[qual.replace(" ", "")] = shape
            base = (loop_shapes or {}).get(qual.replace(" ", ""))
            if base is not None and base != shape:
                # the loops this function's invariants were written for changed form (while -> loop, for -> while, one more loop ...):
                # the spliced clauses may no longer describe the exit condition, so a failing proof is not a verdict
                log.lost_anchors.append("%s: loop structure changed (%s -> %s)" % (qual, " ".join(base) or "none", " ".join(shape) or "none"))
            for K, secs in spec.loops.items():
                if isinstance(K, tuple):
                    # //@loop `pattern`: the innermost loop whose text contains the pattern (independent of the loop's ordinal)
                    cands = [lp for lp in loops if _find_all(body[lp[0]:lp[2] + 1], _pat_toks(K[1]))]
                    inner = min(cands, key=lambda lp: lp[2] - lp[0]) if cands else None
                    if inner is None or any(not (lp[0] <= inner[0] and inner[2] <= lp[2]) for lp in cands):
                        log.lost_anchors.append("%s: loop containing `%s` %s" % (qual, K[1], "not found" if inner is None else "is ambiguous"))
                        continue
                    kw, op, cl = inner
                elif K > len(loops):
                    log.lost_anchors.append("%s: loop %d not found (function has %d loops)" % (qual, K, len(loops)))
                    continue
                else:
                    kw, op, cl = loops[K - 1]
                if secs.get("spec"):
                    p = body[op].start
                    edits.append((p, p, "insert", [("\n", None)] + [(l + "\n", v) for l, v in secs["spec"]]))
                if secs.get("start"):
                    p = body[op].end
                    edits.append((p, p, "insert", [("\n", None)] + [(l + "\n", v) for l, v in secs["start"]]))
                if secs.get("end"):
                    p = body[cl].start
                    edits.append((p, p, "insert", [("\n", None)] + [(l + "\n", v) for l, v in secs["end"]]))
    # ---- assemble ----
    edits.sort(key=lambda e: (e[0], 0 if e[2] == "insert" else 1))
    for a in spec.attrs:
        out.vc(a + "\n", spec.vc_line)
    if spec.external_body:
        out.vc("#[verifier::external_body]\n", spec.vc_line)
    # attributes of the item itself are dropped (R3) except cfg
    pos = toks[item.attrs_end].start
    for t_i in range(0, item.attrs_end):
        pass
    attr_text = src.text[item.start:pos]
    for m in re.finditer(r"#\[cfg[^\]]*\]", attr_text):
        out.raw(m.group(0) + "\n")
    last_end = pos
    for (a, b, kind, payload) in edits:
        if a < last_end:
            raise TemplateError("%s: overlapping edits at offset %d" % (qual, a))
        out.repo(src, last_end, a)
        for text, vline in payload:
            if vline is None:
                out.raw(text)
            else:
                out.vc(text, vline)
        last_end = b
    out.repo(src, last_end, item.end)
    out.raw("\n")


def _select_block(src, kind, header, k):
    want = norm_generic_split(norm(header))
    cands = []
    for it in src.items:
        if it.kind != kind:
            continue
        if kind == "impl":
            if rsscan.impl_header_norm(it) == want:
                cands.append(it)
        elif it.name == header.strip():
            cands.append(it)
    if not cands:
        raise TemplateError("%s `%s` not found in %s" % (kind, header, src.path))
    if len(cands) > 1 and k is None:
        raise TemplateError("%s `%s` is ambiguous in %s (%d matches)" % (kind, header, src.path, len(cands)))
    return cands[(k or 1) - 1]


def _struct_emit(out, src, item, derives, log, keep_private=False):
    toks = item.toks
    # attributes: filter derive
    attr_text = src.text[item.start:toks[item.attrs_end].start]
    m = re.search(r"#\[derive\(([^)]*)\)\]", attr_text)
    have = [d.strip() for d in m.group(1).split(",")] if m else []
    log.derives[item.name] = sorted(set(log.derives.get(item.name, [])) | set(d for d in have if d))
    keep_default = {"Copy", "Clone", "PartialEq", "Eq"}
    keep = [d for d in have if (d in derives if derives is not None else d in keep_default)]
    dropped = [d for d in have if d not in keep]
    if keep:
        out.raw("#[derive(%s)]\n" % ", ".join(keep))
    if dropped:
        log.rule("R3", "struct %s: derive(%s) dropped" % (item.name, ", ".join(dropped)))
    # make fields pub (R2)
    edits = []
    made = []
    f_lo, f_hi, tuple_like = item.body_open + 1, item.body_close, False
    if item.body_open < 0:
        # tuple struct `struct Name(T, U);`: the fields are the first top-level parenthesis group (not `pub(..)`)
        for j in range(item.attrs_end + 1, len(toks)):
            if toks[j].kind == "punct" and toks[j].text == "(" and toks[j - 1].text != "pub":
                f_lo, f_hi, tuple_like = j + 1, match_close(toks, j), True
                break
            if toks[j].kind == "punct" and toks[j].text in ("{", ";"):
                break
    if (item.body_open >= 0 or tuple_like) and not keep_private:      # `private`: field visibility kept as written (needed for #[verifier::type_invariant])
        i = f_lo
        expect_field = True
        while i < f_hi:
            t = toks[i]
            if expect_field:
                # skip attributes
                while toks[i].text == "#":
                    i = match_close(toks, i + 1) + 1
                t = toks[i]
                if t.text != "pub":
                    edits.append(t.start)
                    made.append(str(len(made)) if tuple_like else t.text)
                else:
                    if toks[i + 1].text == "(":
                        i = match_close(toks, i + 1)
                expect_field = False
            if t.kind == "punct" and t.text in rsscan.OPEN:
                i = match_close(toks, i) + 1
                continue
            if t.text == "<":
                # skip generic args crudely: commas inside <> must not start a field
                depth = 0
                while i < f_hi:
                    if toks[i].text == "<":
                        depth += 1
                    elif toks[i].text == ">":
                        depth -= 1
                    elif toks[i].text == ">>":
                        depth -= 2
                    if depth <= 0:
                        break
                    i += 1
            if toks[i].text == ",":
                expect_field = i + 1 < f_hi
            i += 1
    pos = toks[item.attrs_end].start
    if toks[item.attrs_end].text != "pub":
        out.raw("pub ")
    for e in edits:
        out.repo(src, pos, e)
        out.raw("pub ")
        pos = e
    out.repo(src, pos, item.end)
    out.raw("\n")
    if made:
        log.rule("R2", "struct %s: fields %s made pub" % (item.name, ", ".join(made)))


def build(vc_path, repo_root, defines=None, canary=False, known_drops=None, strip=None, loop_shapes=None):
    """returns (text, origins, log). defines: dict of NAME->str for `//@if NAME` ... `//@endif` sections."""
    defines = defines or {}
    lines = []          # (text, "file:line")

    def load(path, depth=0):
        if depth > 8:
            raise TemplateError("include depth exceeded")
        base = os.path.basename(path)
        for k, l in enumerate(open(path).read().split("\n")):
            if l.strip().startswith("//@include "):
                inc = os.path.join(os.path.dirname(path), l.strip()[len("//@include "):].strip())
                if not os.path.exists(inc):
                    raise TemplateError("include %s not found" % inc)
                load(inc, depth + 1)
            else:
                lines.append((l, "%s:%d" % (base, k + 1)))
    load(vc_path)
    out = Out()
    log = Log()
    sources = {}

    def get_src(name):
        if name in sources:
            return sources[name]
        # allow direct path
        p = os.path.join(repo_root, name)
        if os.path.exists(p):
            s = Source(name, name, open(p).read())
            sources[name] = s
            log.sources.add(name)
            return s
        raise TemplateError("unknown source %s" % name)

    i = 0
    n = len(lines)
    block = None          # dict(kind, src, item, extra, fns{name:FnSpec}, order[], noassoc, line)
    cur_fn = None
    cur_sec = None        # list to append (text, vc_line) to
    active = [True]

    def close_fn():
        nonlocal cur_fn, cur_sec
        cur_fn = None
        cur_sec = None

    def flush_block():
        nonlocal block
        b = block
        block = None
        src, item = b["src"], b["item"]
        if b["kind"] == "fn":
            emit_fn(out, src, item, b["fns"][item.name], log, src.path, canary, strip, loop_shapes)
            return
        toks = item.toks
        where = "%s::%s" % (src.path, " ".join(norm(item.header())) if b["kind"] == "impl" else item.name)
        # R14: `//@hoist NAME => FREE_NAME`: Verus accepts only simple expressions as initialisers of trait consts;
        # the initialiser is moved verbatim into a free `pub const FREE_NAME` and the associated const becomes `= FREE_NAME`
        hoisted = {}
        if b.get("hoist"):
            for sub in split_items(toks[item.body_open + 1:item.body_close]):
                if sub.kind == "const" and sub.name in b["hoist"]:
                    st = sub.toks
                    colon = next(k for k, t in enumerate(st) if k > sub.attrs_end and t.text == ":")
                    eq = next(k for k, t in enumerate(st) if k > colon and t.text == "=")
                    if "Self" in [t.text for t in st[colon + 1:]]:
                        raise TemplateError("%s: cannot hoist const %s: it mentions Self" % (where, sub.name))
                    new = b["hoist"][sub.name]
                    out.vc("pub const %s: " % new, b["line"])
                    out.repo(src, st[colon + 1].start, st[eq - 1].end)
                    out.raw(" = ")
                    out.repo(src, st[eq + 1].start, st[-1].end)
                    out.raw("\n")
                    hoisted[sub.name] = (st[eq].end, new)
                    log.rule("R14", "%s: initialiser of const %s hoisted into free const %s" % (where, sub.name, new))
            for nm in b["hoist"]:
                if nm not in hoisted:
                    raise TemplateError("const %s not found in %s" % (nm, where))
        # header
        if b.get("hdr"):
            out.vc(b["hdr"] + " {\n", b["line"])
            log.rule(b.get("hdr_rule") or "R9", "%s: block header replaced by `%s`" % (where, b["hdr"]))
        else:
            out.repo(src, toks[item.attrs_end].start, toks[item.body_open].end)
            out.raw("\n")
        for l, v in b["extra"]:
            out.vc(l + "\n", v)
        inner = split_items(toks[item.body_open + 1:item.body_close])
        seen = set()
        for sub in inner:
            if sub.kind == "fn":
                spec = b["fns"].get(sub.name)
                if spec is None and sub.name in b.get("drop", ()):
                    continue
                if spec is None:
                    key = ("%s::%s" % (where, sub.name)).replace(" ", "")
                    if known_drops is None or key in known_drops:
                        log.dropped.append("%s::%s" % (where, sub.name))
                        continue
                    # a function that did not exist in this block on the pinned tree: closed world - it is emitted verbatim,
                    # so a trait-impl method is checked against the trait's contract (or the unit becomes undecided)
                    is_trait_impl = b["kind"] == "impl" and any(t.text == "for" for t in item.header())
                    spec = FnSpec(sub.name, b["line"], keep=True)
                    kind = "trait-impl method (checked against the trait's contract)" if is_trait_impl else "helper without contract"
                    if not is_trait_impl and sub.body_open >= 0:
                        # a new private helper whose body is one expression (the usual "extract a tiny helper" refactoring) gets the
                        # contract `result == that expression`, so callers keep verifying; anything else stays contract-less
                        body = sub.toks[sub.body_open:sub.body_close + 1]
                        has_ret = any(t.text == "->" for t in sub.toks[sub.attrs_end:sub.body_open])
                        try:
                            single = rsscan.tail_start(body) == 1 and len(body) > 2 and not any(t.text in ("while", "for", "loop", "let", "return") for t in body)
                        except ScanError:
                            single = False
                        if single and has_ret:
                            expr = src.text[body[1].start:body[-2].end]
                            spec = FnSpec(sub.name, b["line"], ret="verif_r", header=[("        ensures verif_r == (%s)" % " ".join(expr.split()), b["line"])])
                            kind = "single-expression helper (auto contract: result == its body expression)"
                            log.functions.pop() if False else None
                    log.new_functions.append("%s [%s]" % (key, kind))
                seen.add(sub.name)
                emit_fn(out, src, sub, spec, log, where, canary, strip, loop_shapes)
            elif sub.kind == "const" and sub.name in hoisted:
                out.repo(src, sub.start, hoisted[sub.name][0])
                out.raw(" %s;\n" % hoisted[sub.name][1])
            elif not b["noassoc"]:
                out.repo(src, sub.start, sub.end)
                out.raw("\n")
        for name in b["fns"]:
            if name not in seen:
                # a trait impl that no longer defines a method the contract names: the trait's default body is what runs now.  Instantiate
                # that default in the impl (as R13 does) with the contract header only (the in-body hints were written for the removed body),
                # so the default is checked against the contract instead of leaving the unit undecided (seeded C01-r42)
                hdr = [t.text for t in item.header()]
                dflt = None
                if b["kind"] == "impl" and "for" in hdr:
                    k = hdr.index("for")
                    depth = 0
                    tname = None
                    for t in reversed(hdr[:k]):        # last identifier at angle depth 0 before `for` = the trait's name
                        if t in (">", ">>"):
                            depth += len(t)
                        elif t == "<":
                            depth -= 1
                        elif depth == 0 and re.fullmatch(r"[A-Za-z_][A-Za-z0-9_]*", t):
                            tname = t
                            break
                    for cand in list(sources.values()):
                        for it in cand.items:
                            if it.kind == "trait" and it.name == tname:
                                for x in split_items(it.toks[it.body_open + 1:it.body_close]):
                                    if x.kind == "fn" and x.name == name and x.body_open >= 0:
                                        dflt = (cand, x, tname)
                if dflt is None:
                    raise TemplateError("fn %s not found in %s" % (name, where))
                spec = b["fns"][name]
                spec.start, spec.tail, spec.anchors, spec.loops, spec.rewrites = [], [], [], {}, []
                log.rule("R13", "%s: method %s is no longer defined by the impl; the default body of %s::%s is instantiated and checked against the contract" % (where, name, dflt[2], name))
                log.new_functions.append("%s::%s [trait-impl method (default body of the trait, checked against the contract)]" % (where.replace(" ", ""), name))
                emit_fn(out, dflt[0], dflt[1], spec, log, where, canary)
        for (isrc, tname, spec) in b.get("inherit", []):
            tr = [it for it in isrc.items if it.kind == "trait" and it.name == tname]
            if not tr:
                raise TemplateError("trait %s not found in %s" % (tname, isrc.path))
            subs = [x for x in split_items(tr[0].toks[tr[0].body_open + 1:tr[0].body_close]) if x.kind == "fn" and x.name == spec.name]
            if not subs or subs[0].body_open < 0:
                raise TemplateError("trait %s has no default method %s in %s" % (tname, spec.name, isrc.path))
            if any(x.kind == "fn" and x.name == spec.name for x in inner):
                raise TemplateError("%s defines %s itself; //@inherit does not apply" % (where, spec.name))
            log.rule("R13", "%s: inherited default method %s::%s instantiated in the impl" % (where, tname, spec.name))
            emit_fn(out, isrc, subs[0], spec, log, where, canary)
        out.raw("}\n")

    while i < n:
        line, lineno = lines[i]
        if "${" in line:
            for dk, dv in defines.items():
                if isinstance(dv, str):
                    line = line.replace("${%s}" % dk, dv)
        s = line.strip()
        i += 1
        if s.startswith("//@if "):
            cond = s[6:].strip()
            neg = cond.startswith("!")
            val = bool(defines.get(cond.lstrip("!")))
            active.append(active[-1] and (val != neg))
            continue
        if s == "//@endif":
            active.pop()
            continue
        if not active[-1]:
            continue
        if not s.startswith("//@"):
            if cur_sec is not None:
                cur_sec.append((line, lineno))
            elif block is not None:
                if s:
                    raise TemplateError("%s: %s: text inside a block but outside a section" % (vc_path, lineno))
            else:
                out.vc(line + "\n", lineno)
            continue
        d = s[3:].strip()
        word = d.split()[0] if d.split() else ""
        rest = d[len(word):].strip()
        m_rw = re.match(r"rewrite\[(\w+)\]", word)
        if block is None:
            if word == "source":
                nm, path = [x.strip() for x in rest.split("=", 1)]
                p = os.path.join(repo_root, path)
                if not os.path.exists(p):
                    raise TemplateError("source file %s does not exist" % path)
                sources[nm] = Source(nm, path, open(p).read())
                log.sources.add(path)
            elif word == "expand":
                nm, spec = [x.strip() for x in rest.split("=", 1)]
                sname, call = [x.strip() for x in spec.split("::", 1)]
                base = get_src(sname)
                mm = re.match(r"(\w+)\s*!\s*[\(\[\{](.*)[\)\]\}]\s*;?$", call, re.S)
                if not mm:
                    raise TemplateError("%s: %s: bad expand" % (vc_path, lineno))
                mname, args = mm.group(1), mm.group(2)
                defs = [it for it in base.root.items if it.kind == "macro_rules" and it.name == mname]
                if not defs:
                    raise TemplateError("macro %s not found in %s" % (mname, base.path))
                # the invocation must exist in the file (what rustc expands); `$_` in the directive stands for exactly
                # one token of the invocation (the expansion then uses the invocation's own argument text)
                def _args_match(ct, pt):
                    ci = pi = 0
                    while pi < len(pt):
                        if pt[pi] == "$" and pi + 1 < len(pt) and pt[pi + 1] == "_":
                            if ci >= len(ct):
                                return False
                            ci += 1; pi += 2
                        elif ci < len(ct) and ct[ci] == pt[pi]:
                            ci += 1; pi += 1
                        else:
                            return False
                    return ci == len(ct)
                calls = [it for it in base.items if it.kind == "macro_call" and it.name == mname
                         and _args_match(norm(it.toks[it.body_open + 1:it.body_close]), norm(args))]
                if not calls:
                    raise TemplateError("invocation %s!(%s) not found in %s" % (mname, args, base.path))
                if "$" in norm(args):
                    if len(calls) > 1:
                        raise TemplateError("invocation pattern %s!(%s) is ambiguous in %s (%d matches)" % (mname, args, base.path, len(calls)))
                    c0 = calls[0]
                    args = base.text[c0.toks[c0.body_open + 1].start:c0.toks[c0.body_close - 1].end]
                try:
                    text, lm = macroexp.expand(base.root.text, defs[0], args)
                except macroexp.MacroError as e:
                    raise TemplateError("macro expansion failed: %s" % e)
                sources[nm] = Source(nm, base.path, text, lm, root=base.root)
                log.rule("R5", "%s!(%s) of %s instantiated" % (mname, args, base.path))
            elif word == "struct":
                mm = re.match(r"(\S+)\s*::\s*(\w+)\s*(?:derive\(([^)]*)\))?", rest)
                src = get_src(mm.group(1))
                its = [it for it in src.items if it.kind in ("struct", "enum") and it.name == mm.group(2)]
                if not its:
                    raise TemplateError("struct %s not found in %s" % (mm.group(2), src.path))
                derives = None if mm.group(3) is None else [x.strip() for x in mm.group(3).split(",") if x.strip()]
                _struct_emit(out, src, its[0], derives, log, keep_private=bool(re.search(r"(?:^|\s)private\s*$", rest)))
            elif word == "copy":
                mm = re.match(r"(\S+)\s*::\s*(\w+)\s+(\w+)", rest)
                src = get_src(mm.group(1))
                its = [it for it in src.items if it.kind == mm.group(2) and it.name == mm.group(3)]
                if not its:
                    raise TemplateError("%s %s not found in %s" % (mm.group(2), mm.group(3), src.path))
                out.repo(src, its[0].toks[its[0].attrs_end].start, its[0].end)
                out.raw("\n")
            elif word == "file":
                # whole repo file verbatim (e.g. as the body of a `#[verifier::external] mod m { ... }` written in
                # the template: rustc expands its macros / evaluates its consts itself, Verus does not look inside)
                src = get_src(rest.strip())
                out.repo(src, 0, len(src.text))
                out.raw("\n")
                log.rule("R1", "%s copied whole (verbatim, unverified surrounding code)" % src.path)
            elif word in ("fn", "impl", "trait"):
                sname, hdr = [x.strip() for x in rest.split("::", 1)]
                src = get_src(sname)
                k = None
                mm = re.search(r"\s#(\d+)$", hdr)
                if mm:
                    k = int(mm.group(1)); hdr = hdr[:mm.start()].strip()
                item = _select_block(src, word, hdr, k)
                block = dict(kind=word, src=src, item=item, extra=[], fns={}, noassoc=False, line=lineno, hdr=None)
                if word == "fn":
                    cur_fn = FnSpec(item.name, lineno)
                    block["fns"][item.name] = cur_fn
                    cur_sec = None
            else:
                raise TemplateError("%s: %s: unknown directive %s" % (vc_path, lineno, word))
            continue
        # inside a block
        if word == "end":
            close_fn()
            flush_block()
            continue
        if word == "extra":
            close_fn()
            cur_sec = block["extra"]
            continue
        if word == "noassoc":
            block["noassoc"] = True
            continue
        if word == "drop":
            # functions of this block that are deliberately not emitted here (they are under contract in another block / unit)
            block.setdefault("drop", set()).update(rest.split())
            continue
        if word == "hoist":
            hn, hnew = [x.strip() for x in rest.split("=>", 1)]
            block.setdefault("hoist", {})[hn] = hnew
            continue
        m_bh = re.fullmatch(r"blockheader(?:\[(\w+)\])?", word)
        if m_bh:
            block["hdr"] = rest
            block["hdr_rule"] = m_bh.group(1) or "R9"      # `//@blockheader[R4] impl Foo<T>`: rule tag for the log
            continue
        if word in ("fn", "keep") and block["kind"] != "fn":
            close_fn()
            cur_fn = FnSpec(rest, lineno, keep=(word == "keep"))
            block["fns"][rest] = cur_fn
            continue
        if word == "inherit" and block["kind"] == "impl":
            close_fn()
            sname, tname, fname = [x.strip() for x in rest.split("::")]
            cur_fn = FnSpec(fname, lineno)
            block.setdefault("inherit", []).append((get_src(sname), tname, cur_fn))
            continue
        if cur_fn is None:
            raise TemplateError("%s: %s: directive %s outside a fn section" % (vc_path, lineno, word))
        if word == "dropbody":
            cur_fn.dropbody = True
        elif word == "ret":
            cur_fn.ret = rest
            cur_sec = None
        elif word == "header":
            cur_sec = cur_fn.header
        elif word == "start":
            cur_sec = cur_fn.start
        elif word == "tail":
            cur_sec = cur_fn.tail
        elif word in ("before", "after"):
            pats, k = _parse_pat_args(rest, lineno)
            sec = []
            cur_fn.anchors.append((word, pats[0], k, sec, lineno))
            cur_sec = sec
        elif word == "loop":
            if rest.startswith("`"):
                K = ("pat", _pat_re.findall(rest)[0])
                parts = ["`"] + _pat_re.sub("", rest).split()
            else:
                parts = rest.split()
                K = int(parts[0])
            which = parts[1] if len(parts) > 1 else "spec"
            cur_sec = cur_fn.loops.setdefault(K, {}).setdefault(which, [])
        elif m_rw:
            pats, k = _parse_pat_args(rest, lineno)
            if len(pats) != 2:
                raise TemplateError("%s: %s: rewrite needs `from` => `to`" % (vc_path, lineno))
            cur_fn.rewrites.append((m_rw.group(1), pats[0], pats[1], k, lineno))
            cur_sec = None
        elif word == "attr":
            cur_fn.attrs.append(rest)
        elif word == "external_body":
            cur_fn.external_body = True
        elif word == "sig":
            cur_fn.sig = _pat_re.findall(rest)[0]
        else:
            raise TemplateError("%s: %s: unknown directive %s" % (vc_path, lineno, word))
    if block is not None:
        raise TemplateError("%s: unterminated block" % vc_path)
    text, origins = out.finish()
    return text, origins, log
