"""Counterexample search / replay against the real code (never the deciding step).

For a failed obligation the search instantiates the property on a deterministic small scope
using the executables of /verif/cex (plain Rust, path dependencies on /repo, rebuilt from the
working tree).  A hit is a concrete failing input that is written into the replay file.
"""
import json
import os
import subprocess

ROOT = os.path.dirname(os.path.dirname(os.path.abspath(__file__)))
CEX = os.path.join(ROOT, "cex")
REPO = os.environ.get("VERIF_REPO", "/repo")


PROFILES = [("release", "flush-per-write build of rlib (debug assertions on)"), ("buffered", "optimised build of rlib (debug assertions off: Writer buffers)")]


def _build():
    env = dict(os.environ, CARGO_NET_OFFLINE="true", CARGO_TARGET_DIR=os.path.join(ROOT, "build", "cex-target"))
    exes = []
    for prof, _ in PROFILES:
        p = subprocess.run(["cargo", "build", "--profile", prof, "--offline", "-q"], cwd=CEX, env=env, capture_output=True, text=True, timeout=1200)
        if p.returncode != 0:
            return None, p.stderr[-2000:]
        exes.append(os.path.join(ROOT, "build", "cex-target", prof, "rlib-cex"))
    return exes, None


def run_search(prop, seed=0, replay_input=None, timeout=150, known_inputs=()):
    """returns dict: {"found": bool, "input":..., "observed":..., "expected":..., "cases": n, "profile":..} or {"error":..}; None if unavailable"""
    if not os.path.exists(os.path.join(CEX, "Cargo.toml")):
        return None
    exes, err = _build()
    if exes is None:
        return {"error": "cex crate does not build against the working tree: %s" % err}
    total = 0
    at_known = None
    for exe, (prof, desc) in zip(exes, PROFILES):
        args = ["bash", "-c", "ulimit -v 8000000; exec \"$0\" \"$@\"", exe, prop, str(seed)]
        if replay_input is not None:
            args += ["--replay", replay_input if isinstance(replay_input, str) else json.dumps(replay_input)]
        try:
            p = subprocess.run(args, capture_output=True, text=True, timeout=timeout, env=dict(os.environ, VERIF_KNOWN_INPUTS="|".join(known_inputs)))
        except subprocess.TimeoutExpired:
            return {"error": "enumeration timed out after %ds in the %s (the real code may not terminate on some enumerated input)" % (timeout, desc)}
        res = None
        for line in p.stdout.split("\n"):
            if line.startswith("CEX "):
                res = json.loads(line[4:])
        if res is None:
            return {"error": "no result line (exit %d) in the %s: %s" % (p.returncode, desc, (p.stderr or p.stdout)[-800:])}
        if res.get("error"):
            return res
        total += res.get("cases", 0)
        if res.get("found"):
            res["profile"] = prof
            res["cases"] = total
            if res.get("input") in known_inputs and replay_input is None:
                # the enumeration of this build profile ended at the recorded input of a known finding: the other profiles still have to run
                at_known = at_known or res
                continue
            return res
    if at_known:
        at_known["cases"] = total
        return at_known
    return {"found": False, "cases": total}


def search(prop, failure, cfg, seed):
    r = run_search(prop, seed)
    if r and r.get("found"):
        return r
    return None


def replay(prop, path, cfg):
    rep = json.load(open(path))
    print("replay of %s: obligation %s" % (prop, rep.get("obligation")))
    fi = rep.get("failing_input")
    if fi:
        r = run_search(prop, 0, replay_input=fi.get("input"))
        if r is None or r.get("error"):
            print("UNDECIDED: replay executable unavailable: %s" % (r or {}).get("error"))
            return 2
        print("input:    %s" % json.dumps(fi.get("input")))
        print("required: %s" % r.get("expected"))
        print("observed: %s" % r.get("observed"))
        if r.get("found"):
            print("VIOLATION property=%s replay=%s" % (prop, path))
            return 1
        print("the recorded input no longer fails")
        return 0
    # obligation-only replay: re-run the unit and see whether the obligation still fails
    from . import runner
    unit = rep.get("unit")
    if unit and unit in cfg["units"]:
        for prof in cfg["units"][unit].get("profiles", [{"name": "default", "args": []}]):
            r = runner.run_unit(unit, cfg["units"][unit], prof["name"], prof.get("args", []))
            if r.status == "infra":
                print("UNDECIDED: %s" % r.infra_msg)
                return 2
            for f in r.failures:
                if f["id"] == rep["obligation"]:
                    print("obligation still fails: %s" % f["message"])
                    print(f["rendered"])
                    print("VIOLATION property=%s replay=%s no-failing-input-found" % (prop, path))
                    return 1
        print("obligation is discharged on the current tree")
        return 0
    print(rep.get("verifier_output", ""))
    return 2
