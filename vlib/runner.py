"""Build a unit from /repo's working tree, run Verus on it, map diagnostics back, classify."""
import json
import os
import re
import subprocess
import time

from . import template

ROOT = os.path.dirname(os.path.dirname(os.path.abspath(__file__)))
REPO = os.environ.get("VERIF_REPO", "/repo")
BUILD = os.path.join(ROOT, "build")

ASSUMPTION_PATTERNS = [
    ("assume(", r"\bassume\s*\("),
    ("admit()", r"\badmit\s*\(\s*\)"),
    ("external_body", r"external_body"),
    ("assume_specification", r"assume_specification"),
    ("uninterp", r"\buninterp\b"),
    ("axiom fn", r"\baxiom\s+fn\b|broadcast\s+axiom"),
    ("exec_allows_no_decreases_clause", r"exec_allows_no_decreases_clause"),
    ("verifier::truncate", r"verifier::truncate"),
    ("external_trait_specification", r"external_trait_specification"),
    ("external_type_specification", r"external_type_specification"),
    ("verifier::external", r"verifier::external\b"),
]

_fn_re = re.compile(r"^\s*(?:pub(?:\([a-z]+\))?\s+)?(?:(?:open|closed|broadcast|proof|spec|exec|const|unsafe|axiom)\s+)*fn\s+(\w+)")
_impl_re = re.compile(r"^\s*impl\b[^{]*?(?:for\s+)?([A-Za-z_][A-Za-z0-9_]*)\s*(?:<[^{]*>)?\s*(?:where[^{]*)?\{")


class UnitResult:
    def __init__(self, unit, profile):
        self.unit = unit
        self.profile = profile
        self.gen_path = None
        self.cmd = None
        self.status = None            # 'ok' | 'fail' | 'infra'
        self.infra_msg = None
        self.verified = 0
        self.errors = 0
        self.functions = []           # [{name, mode, ok, ms, rlimit}]
        self.failures = []            # [{fn, kind, clause, clause_origin, at_origin, message, id, raw}]
        self.log = None
        self.assumptions = []
        self.smt_ms = 0
        self.wall_s = 0.0
        self.origins = None
        self.text = None
        self.canaries = None          # dict(expected=.., fired=.., silent=[...])
        self.clauses = 0


def enclosing_fn(lines, ln):
    """name of the fn enclosing 1-based line ln in the generated text (nearest preceding fn header)"""
    for k in range(ln - 1, -1, -1):
        m = _fn_re.match(lines[k])
        if m:
            return m.group(1)
    return "?"


def _origin_str(o):
    if o is None:
        return "generated"
    if o[0] in ("repo", "ext"):
        return "%s:%d" % (o[1], o[2])
    return "contract %s" % o[1]


def scan_assumptions(text):
    found = []
    for name, pat in ASSUMPTION_PATTERNS:
        hits = []
        for i, l in enumerate(text.split("\n")):
            code = l.split("//")[0]
            if re.search(pat, code):
                hits.append(i + 1)
        if hits:
            found.append((name, hits))
    return found


def count_clauses(text):
    """rough count of contract clauses (requires/ensures/invariant/decreases keywords)"""
    return len(re.findall(r"\b(requires|ensures|invariant|invariant_except_break|decreases)\b", text))


def run_unit(unit, cfg, profile_name="default", extra_args=None, canary=False, seed=None, timeout=900, strip=None):
    """cfg: dict with vc, verus_args, defines"""
    r = UnitResult(unit, profile_name)
    t0 = time.time()
    vc_path = os.path.join(ROOT, cfg["vc"])
    # one directory per (unit, invoking check): concurrent checks of different properties that share a unit (C01/C02, C03/C16,
    # C06 with C08/C09) must not overwrite each other's generated files; the file NAME stays the profile name
    bdir = os.path.join(BUILD, unit, os.environ.get("VERIF_RUN_TAG", ""))
    os.makedirs(bdir, exist_ok=True)
    try:
        kd = cfg.get("expected_not_under_contract")
        text, origins, log = template.build(vc_path, REPO, cfg.get("defines", {}), canary=canary, known_drops=set(kd) if kd is not None else None, strip=strip, loop_shapes=cfg.get("expected_loop_shapes"))
        if canary:
            r.canaries = {"expected": log.canaries}
    except (template.TemplateError, template.ScanError, template.macroexp.MacroError) as e:
        r.status = "infra"
        r.infra_msg = "extraction failed: %s" % e
        r.wall_s = time.time() - t0
        return r
    r.log, r.text, r.origins = log, text, origins
    gen = os.path.join(bdir, "%s%s.rs" % (profile_name, "_canary" if canary else ""))
    open(gen, "w").write(text)
    r.gen_path = gen
    r.assumptions = scan_assumptions(text)
    r.clauses = count_clauses(text)
    args = ["verus", gen, "--triggers-mode", "silent", "--output-json", "--time", "--error-format=json",
            "--multiple-errors", "200" if canary else "8"] + cfg.get("verus_args", []) + (extra_args or [])
    if seed is not None:
        args += ["--smt-option", "smt.random_seed=%d" % seed]
    r.cmd = " ".join(args)
    try:
        p = subprocess.run(args, capture_output=True, text=True, timeout=timeout, cwd=bdir)
    except subprocess.TimeoutExpired:
        r.status = "infra"
        r.infra_msg = "verus timed out after %ds" % timeout
        r.wall_s = time.time() - t0
        return r
    r.wall_s = time.time() - t0
    try:
        js = json.loads(p.stdout)
    except Exception:
        r.status = "infra"
        r.infra_msg = "verus produced no JSON (exit %d): %s" % (p.returncode, (p.stderr or p.stdout)[-2000:])
        return r
    vr = js.get("verification-results", {})
    r.verified = vr.get("verified", 0)
    r.errors = vr.get("errors", 0)
    try:
        for mod in js["times-ms"]["smt"]["smt-run-module-times"]:
            for f in mod.get("function-breakdown", []):
                r.functions.append({"name": f["function"].split("::", 1)[-1], "mode": f.get("mode:"), "ok": f["success"],
                                    "ms": f["time"], "rlimit": f["rlimit"]})
        r.smt_ms = js["times-ms"]["smt"]["total"]
    except KeyError:
        pass
    lines = text.split("\n")
    diags = []
    for l in p.stderr.split("\n"):
        l = l.strip()
        if l.startswith("{"):
            try:
                diags.append(json.loads(l))
            except Exception:
                pass
    hard = []
    hard_fns = []
    for d in diags:
        if d.get("level") != "error":
            continue
        msg = d.get("message", "")
        if msg.startswith("aborting due to"):
            continue
        spans = d.get("spans", [])
        prim = [s for s in spans if s.get("is_primary")]
        sec = [s for s in spans if not s.get("is_primary")]
        kind = classify_message(msg)
        if kind is None:
            hard.append(msg + " @ " + ", ".join("%d" % s["line_start"] for s in prim))
            for sp in prim:
                if os.path.basename(sp.get("file_name", "")) == os.path.basename(gen) and 0 < sp["line_start"] <= len(origins):
                    o = origins[sp["line_start"] - 1]
                    hard_fns.append(log.ghost_origin.get(o[1]) if o and o[0] == "vc" else None)
                else:
                    hard_fns.append(None)
            continue
        def in_gen(sp):
            return os.path.basename(sp.get("file_name", "")) == os.path.basename(gen)

        def sp_text(sp):
            tx = sp.get("text") or []
            return tx[0]["text"].strip() if tx else ""
        clause_sp = prim[0] if prim else None
        at_sp = prim[0] if prim else None
        if kind == "precondition":
            lab = [s for s in spans if "failed precondition" in (s.get("label") or "")]
            call = [s for s in spans if s not in lab]
            clause_sp = lab[0] if lab else clause_sp
            at_sp = call[0] if call else at_sp
        elif kind == "postcondition":
            lab = [s for s in spans if "failed this postcondition" in (s.get("label") or "")]
            oth = [s for s in spans if s not in lab]
            clause_sp = lab[0] if lab else clause_sp
            at_sp = oth[0] if oth else at_sp
        elif kind in ("invariant-end", "invariant-front", "decreases"):
            at_sp = sec[0] if sec else at_sp
        clause_line = clause_sp["line_start"] if clause_sp and in_gen(clause_sp) else 0
        at_line = at_sp["line_start"] if at_sp and in_gen(at_sp) else 0
        if clause_sp is not None and not in_gen(clause_sp):
            clause_text = "%s [%s:%d]" % (sp_text(clause_sp), clause_sp.get("file_name"), clause_sp["line_start"])
            co = ("ext", clause_sp.get("file_name"), clause_sp["line_start"])
        else:
            clause_text = lines[clause_line - 1].strip() if 0 < clause_line <= len(lines) else ""
            co = origins[clause_line - 1] if 0 < clause_line <= len(origins) else None
        fn = enclosing_fn(lines, at_line) if at_line else "?"
        callee = None
        if kind == "precondition":
            callee = enclosing_fn(lines, clause_line) if clause_line else re.sub(r".*/", "", clause_sp.get("file_name", "?")) if clause_sp else "?"
        ao = origins[at_line - 1] if 0 < at_line <= len(origins) else None
        at_text = lines[at_line - 1].strip() if 0 < at_line <= len(lines) else ""
        oid = "%s::%s::%s" % (unit, fn, kind)
        if kind == "precondition" and callee:
            oid += "@call(%s)" % callee
        norm_clause = re.sub(r"\s+", " ", clause_text.split("//")[0]).strip().rstrip(",")
        if kind in ("postcondition", "precondition", "invariant-end", "invariant-front"):
            oid += "::" + norm_clause
        elif kind in ("assert", "overflow", "bounds", "divzero", "other-vc"):
            oid += "::" + re.sub(r"\s+", " ", at_text.split("//")[0]).strip()
        r.failures.append({"fn": fn, "kind": kind, "clause": clause_text, "clause_origin": _origin_str(co),
                           "at": at_text, "at_origin": _origin_str(ao), "message": msg, "id": oid,
                           "gen_line": at_line, "rendered": d.get("rendered", "")[:3000]})
    if hard and strip is None and hard_fns and all(hard_fns):
        # every front-end error sits in ghost code spliced into a function body (the body was rewritten): retry with the
        # hints of those functions stripped, keeping their contracts - the obligations are then decided without hints
        r2 = run_unit(unit, cfg, profile_name, extra_args, canary, seed, timeout, strip=set(hard_fns))
        if r2.status != "infra":
            return r2
        hard.append("retry without the hints of %s: %s" % (sorted(set(hard_fns)), r2.infra_msg))
    if hard:
        r.status = "infra"
        r.infra_msg = "verus front-end error (not a proof obligation): " + " | ".join(hard[:3])
        return r
    if vr.get("encountered-vir-error"):
        r.status = "infra"
        r.infra_msg = "verus VIR error: " + p.stderr[-1500:]
        return r
    if canary:
        fired = set()
        for f in r.failures:
            m = re.search(r"CANARY (\d+)", lines[f["gen_line"] - 1]) if f["gen_line"] else None
            if m:
                fired.add(int(m.group(1)))
        r.canaries["fired"] = len(fired)
        silent = []
        for m in re.finditer(r"CANARY (\d+) fn (\w+)", text):
            if int(m.group(1)) not in fired:
                silent.append(m.group(2))
        r.canaries["silent"] = silent
        r.canaries["expected"] = len(set(re.findall(r"CANARY (\d+)", text)))
        r.status = "ok" if not silent else "fail"
        return r
    if r.errors == 0 and vr.get("success"):
        r.status = "ok"
    elif r.failures:
        r.status = "fail"
    else:
        r.status = "infra"
        r.infra_msg = "verus reported errors without diagnostics: " + p.stderr[-1500:]
    # rlimit / timeouts are undecided, never alarms
    for f in r.failures:
        if "rlimit" in f["message"].lower() or "resource limit" in f["message"].lower() or "timed out" in f["message"].lower():
            f["kind"] = "rlimit"
    return r


def classify_message(msg):
    m = msg.lower()
    if "postcondition not satisfied" in m:
        return "postcondition"
    if "precondition not satisfied" in m:
        return "precondition"
    if "invariant not satisfied at end of loop body" in m:
        return "invariant-end"
    if "invariant not satisfied before loop" in m:
        return "invariant-front"
    if "loop invariant" in m or "invariant not satisfied" in m:
        return "invariant-end"
    if "assertion failed" in m or "requires not satisfied" in m:      # failing `requires` of `assert .. by(..) requires ..`
        return "assert"
    if "type invariant" in m:
        return "other-vc"
    if "arithmetic underflow/overflow" in m or "overflow" in m and "possible" in m:
        return "overflow"
    if "possible division by zero" in m:
        return "divzero"
    if "index out of bounds" in m or "out of bounds" in m or "index in bounds" in m:      # "precondition not met: index in bounds for this access"
        return "bounds"
    if "decreases not satisfied" in m or "could not prove termination" in m or "decreases" in m and "not satisfied" in m:
        return "decreases"
    if "resource limit" in m or "rlimit" in m:
        return "rlimit"
    if "possible bit shift underflow/overflow" in m:
        return "overflow"
    if "recommendation not met" in m:
        return None
    if "cannot prove" in m or "failed" in m and "proof" in m:
        return "other-vc"
    return None
