"""Minimal Rust lexer + item locator used by the extractor.

Only what mechanical extraction needs: a token stream that is aware of comments,
strings, raw strings, char literals and lifetimes; balanced-delimiter matching;
splitting a token range into items; locating fns inside impl / trait blocks.
No semantic analysis.
"""
import re
from dataclasses import dataclass


class ScanError(Exception):
    pass


@dataclass
class Tok:
    kind: str   # ident | punct | lit | life | comment
    text: str
    start: int
    end: int


_ident = re.compile(r"[A-Za-z_][A-Za-z0-9_]*")
_num = re.compile(r"[0-9][0-9a-zA-Z_]*(\.[0-9][0-9a-zA-Z_]*)?")
_punct3 = ("<<=", ">>=", "...", "..=")
_punct2 = ("::", "->", "=>", "==", "!=", "<=", ">=", "&&", "||", "+=", "-=", "*=", "/=", "%=", "^=",
           "&=", "|=", "<<", ">>", "..")


def lex(src):
    """Return list of Tok (comments included, kind 'comment')."""
    toks = []
    i, n = 0, len(src)
    while i < n:
        c = src[i]
        if c.isspace():
            i += 1
            continue
        if src.startswith("//", i):
            j = src.find("\n", i)
            j = n if j < 0 else j
            toks.append(Tok("comment", src[i:j], i, j))
            i = j
            continue
        if src.startswith("/*", i):
            depth, j = 1, i + 2
            while j < n and depth:
                if src.startswith("/*", j):
                    depth += 1; j += 2
                elif src.startswith("*/", j):
                    depth -= 1; j += 2
                else:
                    j += 1
            toks.append(Tok("comment", src[i:j], i, j))
            i = j
            continue
        # raw strings / byte strings
        m = re.match(r"(b?r)(#*)\"", src[i:i + 40])
        if m:
            hashes = m.group(2)
            close = '"' + hashes
            j = src.find(close, i + len(m.group(0)))
            if j < 0:
                raise ScanError("unterminated raw string")
            j += len(close)
            toks.append(Tok("lit", src[i:j], i, j))
            i = j
            continue
        if c == '"' or (c == 'b' and i + 1 < n and src[i + 1] == '"'):
            j = i + (2 if c == 'b' else 1)
            while j < n and src[j] != '"':
                j += 2 if src[j] == '\\' else 1
            j += 1
            toks.append(Tok("lit", src[i:j], i, j))
            i = j
            continue
        if c == "'" or (c == 'b' and i + 1 < n and src[i + 1] == "'"):
            k = i + (1 if c == 'b' else 0)
            # char literal or lifetime
            m = re.match(r"'(\\.[^']*|[^\\'])'", src[k:k + 12])
            if m:
                j = k + len(m.group(0))
                toks.append(Tok("lit", src[i:j], i, j))
                i = j
                continue
            m = re.match(r"'[A-Za-z_][A-Za-z0-9_]*", src[k:])
            if m and c == "'":
                j = k + len(m.group(0))
                toks.append(Tok("life", src[i:j], i, j))
                i = j
                continue
            raise ScanError("bad quote at offset %d" % i)
        m = _ident.match(src, i)
        if m:
            toks.append(Tok("ident", m.group(0), i, m.end()))
            i = m.end()
            continue
        m = _num.match(src, i)
        if m:
            txt = m.group(0)
            toks.append(Tok("lit", txt, i, i + len(txt)))
            i += len(txt)
            continue
        for p in _punct3:
            if src.startswith(p, i):
                toks.append(Tok("punct", p, i, i + 3)); i += 3
                break
        else:
            for p in _punct2:
                if src.startswith(p, i):
                    toks.append(Tok("punct", p, i, i + 2)); i += 2
                    break
            else:
                toks.append(Tok("punct", c, i, i + 1)); i += 1
    return toks


def code_toks(toks):
    return [t for t in toks if t.kind != "comment"]


OPEN = {"(": ")", "[": "]", "{": "}"}
CLOSE = {")": "(", "]": "[", "}": "{"}


def match_close(toks, i):
    """toks[i] is an opening delimiter; return index of the matching closer."""
    assert toks[i].text in OPEN, toks[i]
    depth = 0
    for j in range(i, len(toks)):
        t = toks[j]
        if t.kind != "punct":
            continue
        if t.text in OPEN:
            depth += 1
        elif t.text in CLOSE:
            depth -= 1
            if depth == 0:
                return j
    raise ScanError("unbalanced delimiter at offset %d" % toks[i].start)


def norm(text_or_toks):
    """Whitespace/comment-insensitive normal form: list of token texts."""
    if isinstance(text_or_toks, str):
        text_or_toks = code_toks(lex(text_or_toks))
    return [t.text for t in text_or_toks]


def norm_generic_split(seq):
    """Split `>>`-style tokens so that generic headers compare equal however they lex."""
    out = []
    for s in seq:
        if s in (">>", "<<"):
            out.extend([s[0], s[0]])
        elif s == ">>=":
            out.extend([">", ">", "="])
        elif s == ">=":
            out.extend([">", "="])
        else:
            out.append(s)
    return out


BLOCK_KW = {"fn", "struct", "enum", "union", "impl", "trait", "mod", "macro_rules"}


@dataclass
class Item:
    kind: str          # fn | struct | enum | impl | trait | const | static | type | use | mod | macro_rules | macro_call | other
    name: str
    toks: list         # code tokens of the whole item (attributes included)
    start: int         # char offsets in the source
    end: int
    attrs_end: int     # index into toks where attributes end
    body_open: int     # index into toks of the `{` opening the block/body, or -1
    body_close: int

    def header(self):
        """tokens between attributes and body `{` (or whole item when there is no body)"""
        hi = self.body_open if self.body_open >= 0 else len(self.toks)
        return self.toks[self.attrs_end:hi]


def split_items(toks):
    """Split a flat code-token list (contents of a file or of an impl/trait block) into items."""
    items = []
    i, n = 0, len(toks)
    while i < n:
        s = i
        # attributes
        while i < n and toks[i].text == "#":
            j = i + 1
            if j < n and toks[j].text == "!":
                j += 1
            if j < n and toks[j].text == "[":
                i = match_close(toks, j) + 1
            else:
                break
        attrs_end = i
        # find keyword
        j = i
        kind, name = "other", ""
        while j < n:
            t = toks[j]
            if t.text == "pub":
                j += 1
                if j < n and toks[j].text == "(":
                    j = match_close(toks, j) + 1
                continue
            if t.text in ("unsafe", "async", "extern", "default"):
                j += 1
                if toks[j - 1].text == "extern" and j < n and toks[j].kind == "lit":
                    j += 1
                continue
            if t.text == "const" and j + 1 < n and toks[j + 1].text in ("fn", "unsafe"):
                j += 1
                continue
            break
        if j >= n:
            break
        t = toks[j]
        if t.text in ("fn", "struct", "enum", "union", "trait", "mod", "type", "const", "static"):
            kind = t.text
            name = toks[j + 1].text if j + 1 < n else ""
            if kind in ("const", "static") and name == "mut":
                name = toks[j + 2].text
        elif t.text == "impl":
            kind = "impl"
        elif t.text == "use":
            kind = "use"
        elif t.text == "macro_rules" and j + 1 < n and toks[j + 1].text == "!":
            kind = "macro_rules"
            name = toks[j + 2].text
        elif t.kind == "ident" and j + 1 < n and toks[j + 1].text == "!":
            kind = "macro_call"
            name = t.text
        # find the end
        k = j
        body_open = body_close = -1
        if kind == "macro_rules":
            k = j + 3
            body_open = k
            body_close = match_close(toks, k)
            k = body_close + 1
            if k < n and toks[k].text == ";":
                k += 1
        elif kind == "macro_call":
            k = j + 2
            body_open = k
            body_close = match_close(toks, k)
            k = body_close + 1
            if k < n and toks[k].text == ";":
                k += 1
        else:
            blocky = kind in ("fn", "struct", "enum", "union", "impl", "trait", "mod")
            while k < n:
                tt = toks[k]
                if tt.kind == "punct" and tt.text in ("(", "["):
                    k = match_close(toks, k) + 1
                    continue
                if tt.kind == "punct" and tt.text == "{":
                    c = match_close(toks, k)
                    if blocky:
                        body_open, body_close = k, c
                        k = c + 1
                        break
                    k = c + 1
                    continue
                if tt.kind == "punct" and tt.text == ";":
                    k += 1
                    break
                k += 1
        it_toks = toks[s:k]
        if not it_toks:
            raise ScanError("empty item at token %d" % s)
        items.append(Item(kind, name, it_toks, it_toks[0].start, it_toks[-1].end, attrs_end - s,
                          body_open - s if body_open >= 0 else -1, body_close - s if body_close >= 0 else -1))
        i = k
    return items


def impl_header_norm(item):
    return norm_generic_split(norm(item.header()))


def find_loops(body_toks):
    """body_toks: code tokens of a fn body including the outer braces.
    Returns list of (kw_index, open_index, close_index) for every while/for/loop in source order."""
    res = []
    n = len(body_toks)
    for i, t in enumerate(body_toks):
        if t.kind != "ident" or t.text not in ("while", "for", "loop"):
            continue
        # `for<'a>` in types is not a loop
        if t.text == "for" and i + 1 < n and body_toks[i + 1].text == "<":
            continue
        # impl Trait for Type cannot occur inside a body except nested items; ignore
        j = i + 1
        if t.text == "while" and j < n and body_toks[j].text == "{":
            j = match_close(body_toks, j) + 1      # do-while idiom: `while { ..; cond } { body }`
        while j < n:
            tt = body_toks[j]
            if tt.kind == "punct" and tt.text in ("(", "["):
                j = match_close(body_toks, j) + 1
                continue
            if tt.kind == "punct" and tt.text == "{":
                break
            j += 1
        if j >= n:
            raise ScanError("loop without body")
        res.append((i, j, match_close(body_toks, j)))
    return res


def find_pattern(toks, pat, start=0):
    """All start indices where the token-text sequence `pat` occurs in toks."""
    texts = [t.text for t in toks]
    out = []
    m = len(pat)
    for i in range(start, len(texts) - m + 1):
        if texts[i:i + m] == pat:
            out.append(i)
    return out


_BLOCK_START = {"if", "while", "for", "loop", "match", "unsafe"}


def tail_start(body):
    """body: code tokens of a fn body including outer braces.  Index of the first token of the
    tail expression (the value of the block), or the index of the closing brace when the body
    ends with a `;`-terminated statement (unit function)."""
    n = len(body)
    i = 1
    last_stmt_start = None
    last_ended_semicolon = True
    while i < n - 1:
        start = i
        first = body[i]
        blocky = (first.kind == "ident" and first.text in _BLOCK_START) or first.text == "{"
        ended_semi = False
        while i < n - 1:
            t = body[i]
            if t.kind == "punct" and t.text in OPEN:
                c = match_close(body, i)
                i = c + 1
                if t.text == "{" and blocky:
                    nxt = body[i] if i < n - 1 else None
                    if nxt is not None and (nxt.text == "else"):
                        continue
                    if nxt is not None and nxt.text in (".", "?"):
                        blocky = False
                        continue
                    # `match x {..}` / `if .. {..}`: statement ends here unless this `{` was the scrutinee
                    # block of a do-while (`while {..} {..}`)
                    if first.text == "while" and start + 1 < n and body[start + 1].text == "{" and c == match_close(body, start + 1):
                        continue
                    if nxt is not None and nxt.text == ";":
                        i += 1
                        ended_semi = True
                    break
                continue
            if t.kind == "punct" and t.text == ";":
                i += 1
                ended_semi = True
                break
            i += 1
        last_stmt_start = start
        last_ended_semicolon = ended_semi
    if last_stmt_start is not None and last_ended_semicolon and body[last_stmt_start].kind == "ident" and body[last_stmt_start].text == "return":
        return last_stmt_start      # `..; return e;` as the last statement is the tail written with `return`: //@tail goes before it
    if last_stmt_start is None or last_ended_semicolon:
        return n - 1
    if body[last_stmt_start].kind == "ident" and body[last_stmt_start].text in ("for", "while"):
        return n - 1          # a trailing `for`/`while` loop is unit-valued: the body has no tail expression
    return last_stmt_start
