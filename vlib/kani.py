"""Run Kani harness crates (path dependencies on /repo, rebuilt from the working tree).

One `cargo kani` invocation per crate (all selected harnesses, in parallel); the per-harness
results are recovered from the per-thread output blocks.  Naming convention inside the crates:
a harness whose name starts with `bounded_` is a BOUNDED stand-in (its bound is stated in the
doc comment and in units.json); every other harness is loop-free over fully symbolic inputs,
i.e. a complete proof for the stated type/shape.
"""
import os
import re
import subprocess
import time

ROOT = os.path.dirname(os.path.dirname(os.path.abspath(__file__)))


def parse_output(o):
    cur = {}
    res = {}
    lines = o.split("\n")
    i = 0
    while i < len(lines):
        l = lines[i]
        m = re.match(r"(?:Thread (\d+): )?Checking harness (\S+?)\.\.\.", l)
        if m:
            cur[m.group(1) or "0"] = m.group(2)
            i += 1
            continue
        m = re.match(r"Thread (\d+): \s*$", l)
        single = l.startswith("VERIFICATION RESULT:") and len(cur) == 1 and "0" in cur
        if m or single:
            th = m.group(1) if m else "0"
            name = cur.get(th)
            blk = []
            j = i + (1 if m else 0)
            while j < len(lines) and not lines[j].startswith("Verification Time"):
                blk.append(lines[j])
                j += 1
            if j < len(lines):
                blk.append(lines[j])
            b = "\n".join(blk)
            if name:
                r = {"checks": 0, "failed_checks": 0, "block": b}
                mm = re.search(r"\*\* (\d+) of (\d+) failed", b)
                if mm:
                    r["failed_checks"], r["checks"] = int(mm.group(1)), int(mm.group(2))
                mt = re.search(r"Verification Time: ([0-9.]+)s", b)
                r["time_s"] = float(mt.group(1)) if mt else 0.0
                mc = re.search(r"\*\* (\d+) of (\d+) cover properties satisfied", b)
                r["covers_satisfied"] = int(mc.group(1)) if mc else 0
                if "VERIFICATION:- SUCCESSFUL" in b and "rejects" in name.split("::")[-1] and r["covers_satisfied"] > 0:
                    # `*_rejects*` harnesses: the statement after the call must be unreachable (every invalid input panics)
                    r["status"] = "fail"
                    r["failed_desc"] = "an invalid input was accepted (REJECT_BYPASS cover satisfied)"
                elif "VERIFICATION:- SUCCESSFUL" in b:
                    r["status"] = "ok"
                    if "panics as expected" in b:
                        r["failed_checks"] = 0      # the expected panic is not an undischarged obligation
                elif "VERIFICATION:- FAILED" in b:
                    fails = re.findall(r"Failed Checks: (.*)", b)
                    if fails and all("unwinding assertion" in f for f in fails):
                        r["status"] = "infra"
                        r["msg"] = "unwinding bound too small"
                    else:
                        r["status"] = "fail"
                        r["failed_desc"] = "; ".join(f for f in fails if "unwinding assertion" not in f)[:600]
                else:
                    r["status"] = "infra"
                    r["msg"] = "no verdict"
                res[name] = r
            i = j + 1
            continue
        i += 1
    return res


def run_crate(crate, specs):
    """specs: list of dicts {crate, filter (harness substring or None), bounds: {regex: text}, timeout, jobs}; returns per-harness result dicts"""
    cdir = os.path.join(ROOT, "kani", crate)
    env = dict(os.environ, CARGO_NET_OFFLINE="true", CARGO_TARGET_DIR=os.path.join(ROOT, "build", "kani-target", crate))
    out = []
    for spec in specs:
        t0 = time.time()
        cmd = ["cargo", "kani", "-j", str(spec.get("jobs", 12)), "--output-format", "terse"] + spec.get("args", [])
        for f in spec.get("filters", []):
            cmd += ["--harness", f]
        shown = "cd kani/%s && CARGO_NET_OFFLINE=true %s" % (crate, " ".join(cmd))
        try:
            # own process group, so that a timeout also kills the cbmc / solver children (they would otherwise spin for hours)
            pr = subprocess.Popen(cmd, cwd=cdir, env=env, stdout=subprocess.PIPE, stderr=subprocess.PIPE, text=True, start_new_session=True)
            try:
                so, se = pr.communicate(timeout=spec.get("timeout", 900))
            except subprocess.TimeoutExpired:
                import signal
                try:
                    os.killpg(pr.pid, signal.SIGKILL)
                except ProcessLookupError:
                    pass
                pr.communicate()
                raise
            o = so + "\n" + se
        except subprocess.TimeoutExpired as e:
            out.append({"crate": crate, "harness": "*", "kind": "complete", "status": "infra", "msg": "cargo kani timed out after %ds (a solver query that is fast on the unchanged tree did not finish)" % spec.get("timeout", 900),
                        "cmd": shown, "checks": 0, "failed_checks": 0, "wall_s": time.time() - t0})
            continue
        res = parse_output(o)
        m = re.search(r"Complete - (\d+) successfully verified harnesses, (\d+) failures, (\d+) total", o)
        if not res or not m or int(m.group(3)) != len(res):
            out.append({"crate": crate, "harness": "*", "kind": "complete", "status": "infra", "cmd": shown, "checks": 0, "failed_checks": 0, "wall_s": time.time() - t0,
                        "msg": "kani did not complete (%d results parsed): %s" % (len(res), o[-1500:])})
            continue
        if len(res) < spec.get("min_harnesses", 1):
            out.append({"crate": crate, "harness": "*", "kind": "complete", "status": "infra", "cmd": shown, "checks": 0, "failed_checks": 0, "wall_s": time.time() - t0,
                        "msg": "only %d harnesses ran, at least %d expected" % (len(res), spec["min_harnesses"])})
            continue
        playbacks = 0
        for name, r in sorted(res.items()):
            short = name.split("::")[-1]
            kind = "bounded" if short.startswith("bounded_") else "complete"
            bound = None
            for rx, txt in spec.get("bounds", {}).items():
                if re.search(rx, name):
                    bound = txt
            ent = {"crate": crate, "harness": name, "kind": kind, "bound": bound, "cmd": shown, "checks": r["checks"], "failed_checks": r["failed_checks"],
                   "wall_s": r.get("time_s", 0.0), "status": r["status"], "msg": r.get("msg"), "failed_desc": r.get("failed_desc"), "output_tail": r["block"][-2500:]}
            if r["status"] == "fail" and playbacks < 2:
                playbacks += 1
                # counterexample from the verifier (concrete playback), attached to the replay file
                try:
                    pc = subprocess.run(["cargo", "kani", "--harness", name, "--exact", "-Z", "concrete-playback", "--concrete-playback=print", "--output-format", "terse"] + spec.get("args", []),
                                        cwd=cdir, env=env, capture_output=True, text=True, timeout=300)
                    mo = re.search(r"Concrete playback unit test.*?```(.*?)```", pc.stdout + pc.stderr, re.S)
                    if mo:
                        ent["cex"] = mo.group(1).strip()[:6000]
                except subprocess.TimeoutExpired:
                    pass
            out.append(ent)
    return out
