"""Run Kani harness crates (path dependencies on /repo, rebuilt from the working tree)."""
import os
import re
import shutil
import subprocess
import time

ROOT = os.path.dirname(os.path.dirname(os.path.abspath(__file__)))
REPO = os.environ.get("VERIF_REPO", "/repo")


def run_crate(crate, harnesses):
    """harnesses: list of dicts {crate, harness, kind: complete|bounded, bound, timeout, args}"""
    cdir = os.path.join(ROOT, "kani", crate)
    out = []
    lock = os.path.join(REPO, "Cargo.lock")
    env = dict(os.environ, CARGO_NET_OFFLINE="true", CARGO_TARGET_DIR=os.path.join(ROOT, "build", "kani-target", crate))
    from concurrent.futures import ThreadPoolExecutor

    def one(h):
        t0 = time.time()
        cmd = ["cargo", "kani", "--harness", h["harness"], "--exact"] + h.get("args", [])
        res = {"crate": crate, "harness": h["harness"], "kind": h.get("kind", "complete"), "bound": h.get("bound"),
               "cmd": "cd kani/%s && CARGO_NET_OFFLINE=true %s" % (crate, " ".join(cmd)), "checks": 0, "failed_checks": 0}
        try:
            p = subprocess.run(cmd, cwd=cdir, env=env, capture_output=True, text=True, timeout=h.get("timeout", 900))
        except subprocess.TimeoutExpired:
            res.update(status="infra", msg="timed out after %ds" % h.get("timeout", 900), wall_s=time.time() - t0)
            return res
        res["wall_s"] = round(time.time() - t0, 2)
        o = p.stdout + p.stderr
        m = re.search(r"\*\* (\d+) of (\d+) failed", o)
        if m:
            res["failed_checks"], res["checks"] = int(m.group(1)), int(m.group(2))
        if "VERIFICATION:- SUCCESSFUL" in o:
            res["status"] = "ok"
            if res["checks"] == 0:
                res.update(status="infra", msg="zero checks")
        elif "VERIFICATION:- FAILED" in o:
            # unwinding assertion failures mean the bound is too small: undecided, not a violation
            fails = re.findall(r"Failed Checks: (.*)", o)
            if any("unwinding assertion" in f for f in fails) and all(("unwinding assertion" in f) for f in fails):
                res.update(status="infra", msg="unwinding bound too small")
            elif "CBMC failed" in o or "out of memory" in o.lower():
                res.update(status="infra", msg="CBMC failed")
            else:
                res["status"] = "fail"
                res["failed_desc"] = "; ".join(fails[:4])
                res["output_tail"] = o[-3000:]
        else:
            res.update(status="infra", msg="kani did not finish (exit %d): %s" % (p.returncode, o[-1500:]))
        return res

    # build once (first harness) then the rest in parallel
    if harnesses:
        out.append(one(harnesses[0]))
        with ThreadPoolExecutor(max_workers=6) as ex:
            out.extend(ex.map(one, harnesses[1:]))
    return out
