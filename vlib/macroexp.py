"""Rule R5: instantiate a `macro_rules!` definition on the arguments of one invocation.

Supports what /repo's item-defining macros use: `$x:frag` metavariables (ident, ty, expr, tt,
literal, path, lifetime, block) and single-level repetitions `$( ... ) sep? (*|+|?)`.
Transcription works on the *source text* of the chosen arm, so the expansion keeps the
formatting of the macro body and each output line is mapped to the macro body's line.
"""
from .rsscan import lex, code_toks, match_close, ScanError, OPEN


class MacroError(Exception):
    pass


def _split_arms(toks):
    """toks: code tokens inside the outer braces of macro_rules!.  -> list of (pat_toks, body_toks) (without outer delimiters)"""
    arms = []
    i, n = 0, len(toks)
    while i < n:
        if toks[i].text not in OPEN:
            raise MacroError("macro arm must start with a delimiter")
        c = match_close(toks, i)
        pat = toks[i + 1:c]
        i = c + 1
        if toks[i].text != "=>":
            raise MacroError("expected => in macro arm")
        i += 1
        c = match_close(toks, i)
        body = toks[i + 1:c]
        arms.append((pat, body))
        i = c + 1
        if i < n and toks[i].text == ";":
            i += 1
    return arms


def _parse_pattern(pat):
    """-> list of nodes: ('tok', text) | ('var', name, frag) | ('rep', [nodes], sep, op)"""
    out = []
    i, n = 0, len(pat)
    while i < n:
        t = pat[i]
        if t.text == "$" and i + 1 < n and pat[i + 1].text == "(":
            c = match_close(pat, i + 1)
            inner = _parse_pattern(pat[i + 2:c])
            j = c + 1
            sep = None
            if pat[j].text not in ("*", "+", "?"):
                sep = pat[j].text
                j += 1
            op = pat[j].text
            out.append(("rep", inner, sep, op))
            i = j + 1
        elif t.text == "$" and i + 3 < n + 1 and pat[i + 2].text == ":":
            out.append(("var", pat[i + 1].text, pat[i + 3].text))
            i += 4
        else:
            out.append(("tok", t.text))
            i += 1
    return out


def _take_fragment(frag, toks, i, stop):
    """consume one fragment starting at toks[i]; returns new index. `stop` = set of texts that end ty/expr."""
    n = len(toks)
    if i >= n:
        raise MacroError("no tokens left for fragment")
    if frag in ("ident", "lifetime"):
        return i + 1
    if frag == "literal":
        if toks[i].text == "-":
            return i + 2
        return i + 1
    if frag in ("tt", "block"):
        if toks[i].text in OPEN:
            return match_close(toks, i) + 1
        return i + 1
    # ty / expr / path / pat / stmt: up to a top-level stop token
    angle = 0
    j = i
    while j < n:
        t = toks[j]
        if t.kind == "punct" and t.text in OPEN:
            j = match_close(toks, j) + 1
            continue
        if frag in ("ty", "path"):
            if t.text == "<":
                angle += 1
            elif t.text == ">":
                angle -= 1
            elif t.text == ">>":
                angle -= 2
        if angle <= 0 and t.text in stop:
            break
        j += 1
    if j == i:
        raise MacroError("empty fragment")
    return j


def _match(nodes, toks, i, binds, depth_iter=None):
    """match nodes against toks from i; returns new index or raises MacroError."""
    for k, nd in enumerate(nodes):
        if nd[0] == "tok":
            if i >= len(toks) or toks[i].text != nd[1]:
                raise MacroError("literal token mismatch: wanted %r" % nd[1])
            i += 1
        elif nd[0] == "var":
            # stop set: the next literal token in the pattern, plus `,` `;` `=>`
            stop = {",", ";", "=>"}
            if k + 1 < len(nodes) and nodes[k + 1][0] == "tok":
                stop.add(nodes[k + 1][1])
            j = _take_fragment(nd[2], toks, i, stop)
            binds.setdefault(nd[1], []) if depth_iter is not None else None
            if depth_iter is not None:
                binds[nd[1]].append(toks[i:j])
            else:
                binds[nd[1]] = toks[i:j]
            i = j
        else:
            _, inner, sep, op = nd
            count = 0
            while i < len(toks):
                save = i
                try:
                    trial = {}
                    j = _match(inner, toks, i, trial, depth_iter=True)
                except MacroError:
                    i = save
                    break
                for name, v in trial.items():
                    binds.setdefault(name, []).extend(v)
                i = j
                count += 1
                if op == "?":
                    break
                if sep is not None:
                    if i < len(toks) and toks[i].text == sep:
                        i += 1
                    else:
                        break
            if op == "+" and count == 0:
                raise MacroError("repetition needs at least one item")
    return i


def _tok_text(src, toks):
    return src[toks[0].start:toks[-1].end] if toks else ""


class Expansion:
    def __init__(self):
        self.parts = []       # (text, src_offset or None)

    def add(self, text, off):
        if text:
            self.parts.append((text, off))


def _transcribe(src, body, lo, hi, binds, it, exp, arg_src):
    """body: code tokens (of the macro source); copy source text from char offset lo to hi with substitutions."""
    i = 0
    n = len(body)
    pos = lo
    while i < n:
        t = body[i]
        if t.text == "$" and i + 1 < n and body[i + 1].text == "(":
            c = match_close(body, i + 1)
            j = c + 1
            sep = None
            if body[j].text not in ("*", "+", "?"):
                sep = body[j].text
                j += 1
            exp.add(src[pos:t.start], pos)
            inner = body[i + 2:c]
            names = [inner[k + 1].text for k in range(len(inner) - 1) if inner[k].text == "$" and inner[k + 1].kind == "ident"]
            reps = [len(binds[nm]) for nm in names if isinstance(binds.get(nm), list) and binds[nm] and isinstance(binds[nm][0], list)]
            if not reps:
                raise MacroError("repetition without repeated variable")
            cnt = reps[0]
            ilo = body[i + 1].end
            ihi = body[c].start
            for r in range(cnt):
                if r and sep:
                    exp.add(sep, None)
                _transcribe(src, inner, ilo, ihi, binds, r, exp, arg_src)
            pos = body[j].end
            i = j + 1
            continue
        if t.text == "$" and i + 1 < n and body[i + 1].kind == "ident" and body[i + 1].text in binds:
            exp.add(src[pos:t.start], pos)
            v = binds[body[i + 1].text]
            if v and isinstance(v[0], list):
                if it is None:
                    raise MacroError("repeated variable used outside repetition")
                v = v[it]
            exp.add(_tok_text(arg_src, v), None)
            pos = body[i + 1].end
            i += 2
            continue
        i += 1
    exp.add(src[pos:hi], pos)


def expand(src, macro_item, arg_src):
    """src: text of the file that defines the macro; macro_item: rsscan.Item of kind macro_rules;
    arg_src: source text of the invocation's arguments (without outer delimiters).
    Returns (text, line_map) where line_map[k] = 1-based line in `src` that output line k (0-based) came from."""
    inner = macro_item.toks[macro_item.body_open + 1:macro_item.body_close]
    arms = _split_arms(inner)
    args = code_toks(lex(arg_src))
    last_err = None
    for pat, body in arms:
        nodes = _parse_pattern(pat)
        binds = {}
        try:
            j = _match(nodes, args, 0, binds)
            if j != len(args):
                # allow trailing separator
                if not (j == len(args) - 1 and args[j].text in (",", ";")):
                    raise MacroError("trailing tokens")
        except (MacroError, ScanError) as e:
            last_err = e
            continue
        exp = Expansion()
        if body:
            # outer delimiters of the arm body
            lo = body[0].start
            hi = body[-1].end
            # include leading indentation of the first line for nicer output
            _transcribe(src, body, lo, hi, binds, None, exp, arg_src)
        text = ""
        chunks = []   # (out_start, out_end, src offset or None)
        for s_, off in exp.parts:
            chunks.append((len(text), len(text) + len(s_), off))
            text += s_
        src_line_of = lambda off: src.count("\n", 0, off) + 1
        line_map = []
        cur = src_line_of(macro_item.start)
        ls = 0
        while True:
            le = text.find("\n", ls)
            le = len(text) if le < 0 else le
            found = None
            for (a_, b_, off) in chunks:
                if off is None or b_ <= ls or a_ > le:
                    continue
                # first source-backed chunk overlapping this line
                found = off + (max(ls, a_) - a_)
                break
            if found is not None:
                cur = src_line_of(found)
            line_map.append(cur)
            if le >= len(text):
                break
            ls = le + 1
        return text, line_map
    raise MacroError("no arm of %s matches `%s` (%s)" % (macro_item.name, arg_src, last_err))
