#!/bin/bash
# Run once after a fresh restore (offline): warm the build caches the checks use. Nothing here is required
# for correctness - every check rebuilds what it needs from /repo's working tree - it only saves time.
cd "$(dirname "$0")"
export CARGO_NET_OFFLINE=true
mkdir -p build evidence replays
( cd cex && CARGO_TARGET_DIR=../build/cex-target cargo build --release --offline -q && CARGO_TARGET_DIR=../build/cex-target cargo build --profile buffered --offline -q ) || echo "setup: cex crate did not build (checks will retry)"
for c in kani/*/; do
  n=$(basename "$c")
  cp -f /repo/Cargo.lock "$c/Cargo.lock" 2>/dev/null
  ( cd "$c" && CARGO_TARGET_DIR=../../build/kani-target/$n cargo kani --only-codegen >/dev/null 2>&1 ) || echo "setup: kani/$n codegen failed (checks will retry)"
done
# first Verus start-up is slow (5-9 s): touch it once
printf 'use vstd::prelude::*;\nverus!{ proof fn t() ensures true {} }\nfn main(){}\n' > build/warm.rs && ( cd build && verus warm.rs >/dev/null 2>&1 )
echo "setup done"
