// Spurious `unsat` of the solver stack in this sandbox (Verus 0.2026.09.13 + Z3 4.16.0): `verus tools/z3_spurious_unsat_repro.rs`
// reports "1 verified, 0 errors" although `assert(false)` sits on the reachable else-path.  Shape that triggers it: a provable `assert`
// in a proof block at the START of a TRAIT-IMPL method with >= 2 ensures clauses, followed by if/else.  Use tools/probe.py to detect it.
//
// Not an inconsistency of the axioms: the logged query (--log-all, root.smt2) has the model  %%switch_label%%0 = true,
// %%location_label%%1 = true, *self != 0;  Z3 answers `unknown` (counterexample) as soon as any of these is changed:
// `(set-option :produce-proofs true)`, default `smt.case_split`, default `rewriter.sort_disjunctions`, `(assert %%switch_label%%0)` added.
// The same body as a free function, with `assert(true)` / without the proof block, or with a single ensures clause fails as it should.
use vstd::prelude::*;
verus! {
pub trait Tr: Copy {
    spec fn is_zero(self) -> bool;
    fn f(&mut self) -> (r: Option<Self>)
        ensures !old(self).is_zero() ==> r == Some(*old(self)),
          old(self).is_zero() ==> r.is_none();
}
impl Tr for i64 {
    open spec fn is_zero(self) -> bool { self == 0 }
    fn f(&mut self) -> (r: Option<Self>) {
        proof {
            let c: i64 = *self;
            assert(c + 0 == c);
        }
        if *self == 0 { None } else { let cur = *self; assert(false); Some(cur) }
    }
}
}
fn main() {}
