#!/bin/bash
export VERIF_EVIDENCE_DIR=/verif/build/evidence-scratch   # never overwrite the real evidence with runs on patched trees
# tools/run_seeded.sh [id ...]: apply each seeded change to /repo, run the check of its property, undo. Self-test only.
cd /verif
ids="$@"; [ -z "$ids" ] && ids=$(ls seeded)
for id in $ids; do
  prop=${id%%-*}
  git -C /repo status --short | grep -q . && { echo "/repo is dirty, abort"; exit 3; }
  git -C /repo apply /verif/seeded/$id/patch.diff || { echo "$id: patch does not apply"; continue; }
  out=$(./check $prop 2>&1); rc=$?
  git -C /repo checkout -- .
  echo "=== $id exit=$rc"
  echo "$out" | grep -E "^VIOLATION|^UNDECIDED|^  obligation|^  input|^  observed" | cut -c1-220 | head -8
  echo "$out" > seeded/$id/check_output.txt
done
