#!/usr/bin/env python3
"""Print a markdown table of the seeded changes (seeded/<id>/) and how the checks report them (from check_output.txt)."""
import glob, json, os, re
ROOT = os.path.dirname(os.path.dirname(os.path.abspath(__file__)))
rows = []
for d in sorted(glob.glob(os.path.join(ROOT, "seeded", "C*"))):
    i = os.path.basename(d)
    try:
        m = json.load(open(os.path.join(d, "meta.json")))
    except Exception:
        m = {}
    out = open(os.path.join(d, "check_output.txt")).read() if os.path.exists(os.path.join(d, "check_output.txt")) else ""
    viol = [l for l in out.split("\n") if l.startswith("VIOLATION")]
    obl = [l.strip()[len("obligation "):] for l in out.split("\n") if l.strip().startswith("obligation ")]
    und = [l for l in out.split("\n") if l.startswith("UNDECIDED")]
    if viol:
        if any("enumeration" in v for v in viol) and not obl:
            how = "enumeration (concrete input)" + ("; contract route undecided" if und else "")
        else:
            o = obl[0] if obl else "?"
            o = re.sub(r"\s+", " ", o)[:90]
            how = "`%s`%s" % (o, "" if any("no-failing-input-found" in v for v in viol) and not any("no-failing" not in v for v in viol) else " + concrete input")
        res = "VIOLATION"
    elif und:
        res, how = "undecided", re.sub(r"\s+", " ", und[0])[:110]
    else:
        res, how = "MISSED", ""
    what = re.sub(r"\s+", " ", str(m.get("what_breaks", "")))[:150]
    rows.append((i, what, res, how))
print("| change | what breaks | result | reported through |")
print("|---|---|---|---|")
for r in rows:
    print("| %s | %s | %s | %s |" % r)
n = len(rows)
print()
print("%d changes: %d VIOLATION, %d undecided, %d missed" % (n, sum(r[2] == "VIOLATION" for r in rows), sum(r[2] == "undecided" for r in rows), sum(r[2] == "MISSED" for r in rows)))
