#!/usr/bin/env python3
"""Regenerate MANIFEST.json from units.json + the per-property texts below."""
import json, os
ROOT = os.path.dirname(os.path.dirname(os.path.abspath(__file__)))
cfg = json.load(open(os.path.join(ROOT, "units.json")))

T_VERUS = "contract-based deductive verification: functions extracted mechanically from /repo on every run, contracts spliced in, every obligation discharged by Verus/Z3"
T_KANI = "; Kani/CBMC harnesses on the real crate for the parts outside Verus' language subset (loop-free full-domain = complete, `bounded_*` = bounded stand-in)"

TEXT = {
 "C01": ("proof", "Segtree::{new_raw,new,from_iter,rebuild,rebuild_empty,set,ask,modify,push_at,merge_at}(+internals) are verified for an ARBITRARY lawful item algebra (no commutativity assumed): ask = in-order fold of the abstract array view, modify = pointwise action on [l..=r], frame over the implicit heap. Built-in items Min/Max/Sum/MinAdd/MaxAdd/SumAdd and Combinator are proved to satisfy the item contract.",
         "Built-in items are proved over an idealised (mathematical) integer: machine overflow is not modelled for them. from_slice (iter().cloned()) is outside Verus' subset: bounded Kani harness (n <= 4, non-commutative merge) + bounded enumeration; debug() is not covered. 64-bit usize, n < usize::MAX/8. Derived Clone/Default of item structs act field-wise (assume_specification)."),
 "C02": ("proof", "lower_bound / lower_bound_rev and their internals are verified against the exact-first/last-index postcondition for every value-determined monotone predicate and every lawful item with Default = identity; the aggregate handed to the predicate is proved to be the in-order fold of exactly [l..=k] (resp. [k..=r]).",
         "Preconditions: l < n (resp. r < n), predicate total and value-determined, monotone along growing ranges, Default is the merge identity. Shares the segtree unit (push_at, merge_at) with C01."),
 "C03": ("proof", "TreapNode::{new,update,push,merge,split_by,split_at,collect_into} and Treap::{new,from_item,is_empty,merge,split_by,split_at,insert_at,remove_at,first,last,root,root_mut,collect,size} are verified for an arbitrary lawful item algebra (pending modifiers composed in order, no commutativity) against the sequence view `elems`; priorities occur only in merge's branch condition, so the result holds for every priority assignment.",
         "gen_priority (static mut + unsafe) is a trusted external_body returning an arbitrary u32. Default trait-method bodies of TreapItem are dropped (R13): the code is verified for an arbitrary lawful item. print.rs out of scope."),
 "C16": ("proof", "Heap clause only: merge / split_at / split_by / insert_at / remove_at / first / last / collect preserve `heap` (parent priority <= child priority on every edge) - proved for all shapes and histories. The check passes if the unit verifies in the min-heap or in the max-heap orientation (consistent direction).",
         "The height bound <= 5*log2(n+1)+20 is a probabilistic statement about the priority source that no contract can express (gen_priority is a trusted external_body): it is checked by BOUNDED enumeration on the real code only - five adversarial build orders (sorted appends, front insertions, split-and-swap rotations, appends with front removals, left merges of single nodes) to 10^5 elements (10^6 in the thorough tier), height compared with the bound at every doubling - labelled bounded, never counted as proved."),
 "C05": ("proof", "DSU::{new,reset,par,un,check,size} verified against the partition view (rep/same), sizes = class cardinalities, union-by-size doubling invariant sz[p[v]] >= 2*sz[v] (hence depth <= log2(component size), lemma_log_depth) and termination of the recursive find.",
         "Preconditions: indices < n. Derived Clone/Debug not under contract (Verus attaches no spec to derived Clone)."),
 "C06": ("proof", "Every function of Modular<M> the property depends on (new, inv, pow, + - * / neg and the assigning forms) is verified for a symbolic modulus 2 <= M < 2^31 against value-level contracts ((a op b) mod M, true inverse when coprime), including absence of i32/i64 overflow.",
         "Readable::read / Writable::write of Modular are verified inside the reader (i64) and writer (u32) units (mint_read, mint_write) against the proved token parser / renderer and the same environment contracts as C08/C09. Display/Debug/Show are not under contract."),
 "C07": ("proof", "Rational::{norm,new,new_int,floor,ceil}, + - * / (by-reference, by-value, assigning forms, instantiated from the real macros), Neg, cmp/partial_cmp are verified for i64, i32 and i128: results canonical (b > 0, gcd = 1) and exactly equal (cross-multiplied) to the rational result; canonical representations are unique (structural == numeric equality); cmp is the numeric order; floor/ceil bracket the value for both signs.",
         "Operand bound |a|,|b| <= 2^30 (i64), 2^14 (i32), 2^62 (i128) in requires. Derived Clone/Copy/PartialEq/Hash assumed field-wise. Ord/PartialOrd impls are verified as inherent impls (R13) because trait impl methods cannot carry the bound."),
 "C08": ("proof", "Reader::{new,refill,peek,skip_whitespace,is_eof,read_line,read,read_vec}, Readable for all 12 integer widths, String, char and tuples of every arity the crate implements (2..8) are verified against an ENVIRONMENT CONTRACT for io::Read that admits every short read and ErrorKind::Interrupted at every call: every result is a function of `unread` (buffer window ++ rest of the source) alone.",
         "Assumed: the Read contract (reads deliver a prefix of the remaining bytes; EOF sticky; Interrupted is transient - finite budget - and consumes nothing; hard I/O errors excluded). read_lines (map_while().collect()) is not under contract. Two genuine defects were repaired (fix: commits 8dcb638, 185acf3)."),
 "C09": ("proof", "Writer::{new,write,write_char,flush,reserve,write_bytes}, Writable for all 12 integer widths (rendering = mathematical decimal expansion, incl. MIN) and tuples of arity 2..8 are verified in BOTH build profiles (flush-per-write and buffered, -C debug-assertions=off): out' = out ++ render for every fill level; the stack buffer BASE_10_LEN is proved sufficient.",
         "Assumed: write_all appends exactly the bytes (std handles partial writes / Interrupted); `dec` = std Display. Vec<T> is proved for every length (loop head rewritten by rule R15); &str, String impls (chunks) and Drop::drop are not under Verus contract (see bounded/unverified in evidence)."),
 "C11": ("proof", "gcd, lcm, egcd, crt verified for i64, i32, i128 (gcd/lcm also u64, u32, u128): gcd is the greatest common divisor (is_gcd), lcm the least common multiple (is_lcm), egcd returns a solution iff gcd | c (Bezout), crt the unique solution in [0, lcm) iff compatible; all overflow obligations discharged under the magnitude bound.",
         "Bounds in requires: |a|,|b|,|c| <= 2^20 (i64/u64), 2^10 (i32/u32), 2^42 (128-bit); operands != T::MIN; lcm(0,0) excluded. assume_specification for iN::abs."),
 "C12": ("proof", "Bitset::{new,from_u64,set,remove,flip,test,clear,iter_bits,default}, BitsIter::{new,next} and &=, |=, ^= are verified for symbolic N against the bit view (forall i < 64N); next returns the least set index >= position.",
         "&, |, ^ (enumerate), ! (mut self), count (map/sum), derived ==, Display/Debug are outside Verus' subset: covered by Kani harnesses for N = 1, 2, 3 words, all words symbolic (bounded in N only). assume_specification for slice::fill."),
 "C13": ("proof", "Sieve::{new,min_prime,is_prime,primes,factorize} and PrimeIter::next verified for every limit n < 2^31-16: mnp[m] is the least prime factor, isp[m] <=> prime(m), primes = all primes <= n increasing; next yields (lpf, exact exponent) with strictly increasing primes; lemma_factors gives the whole factorisation.",
         "64-bit usize assumed. Preconditions 0 <= n <= N on the accessors."),
 "C14": ("proof", "Integer clauses: for each of the 10 integer types and the range forms .., a..b, a..=b, ..b, ..=b a loop-free Kani harness over fully symbolic bounds and raw output proves membership, and an explicit witness proves reachability of every value (complete, bit-precise). Float clause: a loop-free Kani harness over ALL finite f64 bounds and all raw outputs proves start <= x < end (bit-precise IEEE arithmetic; complete) - it failed on the pinned tree and holds after fix 93b88e7. Determinism: next_raw/from_seed verified by Verus (state' = state*A + C mod 2^64, output = a pinned function of the state). Serial structure: Verus lemma that for the library's constants the draw from 0..2^k (k <= 8) is NOT a function of the previous draw (the mechanism behind the period-2^k streams of the pinned tree, repaired by fix 86550aa). Shuffle: Rand::shuffle is verified in Verus to return a rearrangement for EVERY slice length, modularly against the `draw lies in the range` contract of Rand::next / Randomable (which is verified in the same unit for the unsigned forms of every width and by Kani for all types and forms).",
         "Statistical clauses ('every rearrangement of a short slice reached with near-equal frequency', 'no short period') have no contract-level decision beyond the lemma above: they are checked by BOUNDED enumeration on the real code (120 000 seeds x lengths 2..6 x 3 seed patterns, 6-sigma tolerance; 512 draws x 9 small ranges x 6 seeds, no period <= 64) - labelled bounded, never counted as proved. The clauses of next_raw that fix its step and output functions are implementation pins: their failure alone is exit 2, it becomes a violation only together with a failing stream found on the real code. The additional Kani shuffle harness on the compiled crate is bounded (len <= 4). ..b / ..=b require b > 0 / b >= 0 (otherwise the code panics)."),
 "C15": ("proof", "next_submask / next_supermask verified for all 12 integer types (bit-vector reasoning; new state = largest submask below / smallest supermask above, by bit pattern), with lemmas that any run of steps visits every mask once in order; next_permutation verified incl. minimality (no arrangement strictly between) with repeated elements; PermutationIter::next and iter_permutations over that contract.",
         "Element type of permutations monomorphised (R4) to u32, i64, u8, i128, usize (one Verus profile each; not generic over a user Ord). assume_specification for slice swap/reverse/sort, count_zeros. The from_fn/chain wrappers iter_submasks/iter_supermasks, ones(), and the neighbour iterators are outside Verus' subset: Kani harnesses (u8/i8 masks exhaustive; neighbours with symbolic n,m,i,j)."),
 "C18": ("proof", "Derived relations only: gt, le, ge, partial_cmp, abs, the assigning ops, Default and the ZeroOne constants are verified over TRUSTED contracts of the x87 asm primitives (lt, neg, min, max, conversions) and an exact decoding of the 10-byte pattern; consistency of the derived == with partial_cmp is an explicit obligation.",
         "Correct rounding of + - * / and of the conversions is ASSUMED (inline asm, R10), not decided. Four obligations fail on the pinned tree and are recorded as known findings (NaN <= x, NaN >= x, NaN == NaN, +0 != -0)."),
 "C19": ("proof", "get_index is verified with NO precondition on the index (reject mode: a panic = does not return): returns => every idx[k] < dims[k] and the result is the row-major offset < len; injectivity lemma (distinct valid indices address distinct elements); Index/IndexMut/iter/dims. PartialEq::eq is verified for every rank and element type to return true only for equal shapes; the element part of equality and constructor rejection are decided by Kani harnesses on the real crate.",
         "Constructors / the element part of eq / write are outside Verus' subset (iter().product(), Vec == Vec): Kani harnesses are BOUNDED (rank 2, extents <= 3). wf (product of extents == len, mathematically) is a precondition of get_index. Write/read round trip, constructors and equality across shapes are additionally checked by BOUNDED enumeration of the property's own quantifier on the real crate (ranks 1..4, extents <= 5; rank 4 <= 4 in the quick tier). One genuine defect repaired (fix: 028a49f)."),
}

NA = [
 ("C04", "FFT exactness is a floating-point rounding bound (< 0.5 after f64 sin/cos/mul/add): Verus treats floats as uninterpreted and CBMC cannot close transforms of useful size; the integer skeleton is written with step_by().for_each() closures that neither tool's contract route accepts without rewriting it into a model."),
 ("C10", "every obligation is an inequality between f64 expressions with sqrt and division under a 1e-9/1e-7 tolerance: no contract the installed verifiers can discharge; a check could never pass on correct code."),
 ("C17", "quantifies over thread schedules: Kani has no threads, Verus would need its permission types and rejects `static mut`/unsafe outright; no contract within reach can express data-race freedom of the current code."),
 ("C20", "quantifies over macro invocation shapes (programs) and includes 'compiles': a contract attaches to a function, not to a macro_rules! transcriber; verifying finitely many expansions would be enumeration, not a proof about the macro."),
]

checks = []
for pid in sorted(cfg["properties"]):
    cat, text, note = TEXT[pid]
    p = cfg["properties"][pid]
    tech = T_VERUS + (T_KANI if p.get("kani") else "")
    checks.append({
        "property_id": pid,
        "quick_cmd": "./check %s --tier quick" % pid,
        "thorough_cmd": "./check %s --tier thorough" % pid,
        "evidence_file": "/verif/evidence/%s.json" % pid,
        "replay_cmd_template": "./check %s --replay {path}" % pid,
        "engine": "vlib",
        "level_claimed": {"category": cat, "text": text, "design_ref": "DESIGN.md §4 %s" % pid},
        "level_note": note + " Trusted base common to all: Verus 0.2026.09.13 / Z3 / vstd std specs, Kani 0.68 / CBMC where used, and the extraction rules R1-R15 of DESIGN.md §3.1 (every rule application is listed in the evidence file).",
        "technique": tech,
    })

m = {
 "version": 1,
 "setup_cmd": "./setup.sh",
 "hooks": {"guard": "rlib_verif", "enable": "none needed: extraction reads source text; Kani and replay crates use public APIs only (--cfg rlib_verif is reserved, no hook commits)",
           "baseline_off_cmd": "cd /repo && cargo test --workspace --no-fail-fast --offline", "source_commits": [], "add_only": True},
 "engines": [{"name": "vlib", "path": "/verif/check", "serves_properties": sorted(cfg["properties"]),
              "kind_free_text": "python3 driver: mechanical extractor/splicer (vlib/template.py) -> single-file Verus units, Kani harness crates (kani/*), replay/counterexample crate (cex/) on the real code"}],
 "checks": checks,
 "not_applicable": [{"property_id": a, "reason": b} for a, b in NA],
 "notes": "exit 0 = all obligations discharged (KNOWN-FINDING lines for findings listed in known_findings.json); exit 1 = VIOLATION; exit 2 = UNDECIDED (tool/extraction problem, lost anchor, resource limit) - never an alarm. fix: commits in /repo: 8dcb638, 185acf3 (C08), 028a49f (C19).",
}
json.dump(m, open(os.path.join(ROOT, "MANIFEST.json"), "w"), indent=1)
print("MANIFEST.json written:", len(checks), "checks")
