#!/usr/bin/env python3
"""tools/probe.py <unit> [--profile NAME] [--define NAME[=VALUE] ...] [-j N]
Vacuity probes, stronger than `tools/unit.py <unit> --canary` (which probes only the START of every function):
build the unit from $VERIF_REPO (default /repo) like tools/unit.py does, and for EVERY statement line that was copied
from the repository splice `assert(false);` in front of it - one Verus run per probe - and require Verus to report exactly
that assertion as failing.  A probe that is NOT reported ("SILENT") means the path to that statement is vacuous for the
verifier: contradictory hints/preconditions, or a spurious `unsat` of the solver (see tools/z3_spurious_unsat_repro.rs).
Prints one line per probe (`fired` / `SILENT` / `n/a` = the splice position is not a statement position, front-end error);
exit status 1 if any probe is silent, 0 otherwise."""
import json, os, re, subprocess, sys
from concurrent.futures import ThreadPoolExecutor
ROOT = os.path.dirname(os.path.dirname(os.path.abspath(__file__)))
sys.path.insert(0, ROOT)
from vlib import template

# lines that are not the start of a statement inside a function body
_SKIP = re.compile(r"^\s*(\}|\.|\)|\]|//|#\[|(pub(\([a-z]+\))?\s+)?(const\s+|unsafe\s+)?(fn|impl|struct|enum|trait|type|const|use|macro_rules|static|mod)\b"
                   r"|unsafe\b|core::arch|\"|in\(|out\(|options\(|else\b|where\b|\w+\s*:\s*[^=]*,?\s*$|[A-Z]\w*: )")


def main():
    a = sys.argv[1:]
    jobs = 8
    if "-j" in a:
        k = a.index("-j"); jobs = int(a[k + 1]); del a[k:k + 2]
    defines = {}
    while "--define" in a:
        k = a.index("--define"); nv = a[k + 1].split("=", 1); defines[nv[0]] = nv[1] if len(nv) > 1 else True; del a[k:k + 2]
    profile = None
    if "--profile" in a:
        k = a.index("--profile"); profile = a[k + 1]; del a[k:k + 2]
    unit = a[0]
    cfg = json.load(open(os.path.join(ROOT, "units.json")))["units"]
    if unit in cfg:
        ucfg = cfg[unit]
    else:
        ucfg = {"vc": unit if unit.endswith(".vc") else "contracts/%s.vc" % unit, "verus_args": ["--no-erasure-check", "--rlimit", "40"]}
        unit = os.path.basename(unit).replace(".vc", "")
    extra = []
    profs = ucfg.get("profiles", [])
    if profs:
        pr = [x for x in profs if x["name"] == profile] or profs[:1]
        defines = dict(pr[0].get("defines", {}), **defines)
        extra = pr[0].get("args", [])
    repo = os.environ.get("VERIF_REPO", "/repo")
    kd = ucfg.get("expected_not_under_contract")
    text, origins, log = template.build(os.path.join(ROOT, ucfg["vc"]), repo, dict(ucfg.get("defines", {}), **defines),
                                        known_drops=set(kd) if kd is not None else None)
    lines = text.split("\n")
    cands = []
    for i, l in enumerate(lines):
        o = origins[i] if i < len(origins) else None
        if not o or o[0] != "repo":
            continue
        st = l.strip()
        if not st or st == ";" or _SKIP.match(l) or "=>" in st:
            continue
        if st.endswith("{") and not re.match(r"^(if|while|for|loop|match)\b", st):
            continue
        cands.append(i)
    d = os.path.join(ROOT, "build", unit)
    os.makedirs(d, exist_ok=True)
    tag = "_".join(str(v) for v in defines.values()) or "x"

    def run(i):
        l2 = list(lines)
        l2.insert(i, "assert(false); // PROBE")
        path = os.path.join(d, "probe_%s_%d_%d.rs" % (tag, os.getpid(), i))
        open(path, "w").write("\n".join(l2))
        try:
            p = subprocess.run(["verus", path, "--triggers-mode", "silent", "--error-format=json", "--multiple-errors", "20"]
                               + ucfg.get("verus_args", []) + extra, capture_output=True, text=True, cwd=d, timeout=900)
            err = p.stderr
        except subprocess.TimeoutExpired:
            err = ""
        finally:
            if os.path.exists(path):
                os.remove(path)
        hit, hard = False, None
        for ln in err.split("\n"):
            if not ln.startswith("{"):
                continue
            try:
                dj = json.loads(ln)
            except Exception:
                continue
            if dj.get("level") != "error":
                continue
            msg = dj.get("message", "")
            if "assertion failed" in msg and any(sp.get("line_start") == i + 1 for sp in dj.get("spans", [])):
                hit = True
            elif not any(w in msg for w in ("assertion failed", "not satisfied", "aborting", "possible", "precondition", "postcondition", "invariant", "decreases")):
                hard = msg
        return i, hit, hard

    with ThreadPoolExecutor(jobs) as ex:
        res = list(ex.map(run, cands))
    silent = 0
    for i, hit, hard in res:
        if hit:
            st = "fired "
        elif hard:
            st = "n/a   "
        else:
            st = "SILENT"; silent += 1
        print("%s gen:%-5d %s:%-5d %s%s" % (st, i + 1, origins[i][1], origins[i][2], lines[i].strip()[:80],
                                           "" if hit or not hard else "      [front-end: %s]" % hard[:80]))
    print("unit=%s defines=%s probes=%d fired=%d silent=%d n/a=%d" % (unit, defines, len(res), sum(1 for r in res if r[1]), silent,
                                                                     sum(1 for r in res if not r[1] and r[2])))
    return 1 if silent else 0


sys.exit(main())
