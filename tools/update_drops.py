#!/usr/bin/env python3
"""Record, per unit, the functions of the selected impl/trait blocks that are NOT under contract on the current tree
(units.json: expected_not_under_contract). Run on the unchanged tree only. A function that later appears in such a
block and is not in this list is emitted verbatim into the unit (closed world) instead of being dropped silently."""
import json, os, sys
ROOT = os.path.dirname(os.path.dirname(os.path.abspath(__file__)))
sys.path.insert(0, ROOT)
from vlib import template
cfg = json.load(open(os.path.join(ROOT, "units.json")))
os.makedirs(os.path.join(ROOT, "baseline"), exist_ok=True)
for name, u in cfg["units"].items():
    drops = set()
    shapes = {}
    trusted = {}
    derives = {}
    callees = {}
    bodies = {}
    for prof in u.get("profiles", [{"name": "default", "defines": {}}]):
        d = dict(u.get("defines", {}), **prof.get("defines", {}))
        text, origins, log = template.build(os.path.join(ROOT, u["vc"]), os.environ.get("VERIF_REPO", "/repo"), d)
        drops |= {x.replace(" ", "") for x in log.dropped}
        shapes.update(log.loop_shapes)
        trusted.update(log.trusted_text)
        derives.update(log.derives)
        for q, tks in log.body_tokens.items():
            bodies.setdefault(q, " ".join(tks))
        for q, c in log.callees.items():
            callees[q] = sorted(set(callees.get(q, [])) | set(c))
    u["expected_not_under_contract"] = sorted(drops)
    u["expected_loop_shapes"] = shapes
    u["expected_trusted_text"] = trusted
    u["expected_derives"] = derives
    u["expected_callees"] = callees
    json.dump(bodies, open(os.path.join(ROOT, "baseline", "%s.bodies.json" % name), "w"), indent=0)
    print(name, len(drops))
json.dump(cfg, open(os.path.join(ROOT, "units.json"), "w"), indent=1)
