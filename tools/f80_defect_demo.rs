// C18 (unit `f80`): concrete inputs behind the known-finding obligations of contracts/f80.vc, replayed on the
// real crate, plus spot checks of the *trusted* asm contracts (lt / min / max / neg / from) on sample operands.
//
// Build + run (scratch project, nothing is written to /repo):
//   mkdir -p /tmp/f80/demo/src && cp /verif/tools/f80_defect_demo.rs /tmp/f80/demo/src/main.rs
//   printf '[package]\nname="f80_demo"\nversion="0.0.0"\nedition="2021"\n[dependencies]\nrlib_f80={path="/repo/rlib/f80"}\n[workspace]\n' > /tmp/f80/demo/Cargo.toml
//   cd /tmp/f80/demo && CARGO_TARGET_DIR=/tmp/f80/target cargo run --offline -q
//
// Exit status 0 = every defect listed below reproduces and every trusted-contract spot check holds.
//
// Known-finding obligation ids (as printed by `tools/unit.py f80` on the pinned tree) and the inputs shown here:
//   F1  f80::le::postcondition::(v_nan(self@) || v_nan(rhs@)) ==> !r                     NaN <= 1, 1 <= NaN are true
//   F2  f80::ge::postcondition::(v_nan(self@) || v_nan(rhs@)) ==> !r                     NaN >= 1, 1 >= NaN are true
//       (consequence, no obligation of its own: partial_cmp is verified modularly against le/ge's contract;
//        on the real code partial_cmp(NaN, x) == Some(Equal))
//   F3  f80::lemma_eq_consistent_with_partial_cmp::postcondition::a.eq_spec(&b) ==> v_cmp(a@, b@) == Some(Ordering::Equal)
//                                                                                         NaN == NaN (same pattern) is true
//   F4  f80::lemma_eq_consistent_with_partial_cmp::postcondition::v_cmp(a@, b@) == Some(Ordering::Equal) ==> a.eq_spec(&b)
//                                                                                         +0 == -0 is false, partial_cmp says Equal
use rlib_f80::f80;
use std::cmp::Ordering;

fn bits(x: f80) -> [u8; 10] {
    // f80 is `#[repr(align(16))] struct f80([u8; 10])`; the field is private, read the bytes through a pointer
    unsafe { *(&x as *const f80 as *const [u8; 10]) }
}

fn main() {
    rlib_f80::f80_init();
    let nan = f80::from(f64::NAN);
    let one = f80::from(1.0);
    let two = f80::from(2.0);
    let pz = f80::from(0.0);
    let nz = f80::from(-0.0);
    let mut bad = 0;
    let mut defect = |id: &str, what: &str, got: String, ieee: &str, reproduces: bool| {
        println!("DEFECT {:<36} {:<36} = {:<14} (IEEE: {}){}", id, what, got, ieee, if reproduces { "" } else { "   <-- DOES NOT REPRODUCE" });
        if !reproduces { bad += 1; }
    };
    // ---- le::ensures (NaN clause)
    defect("F1 le: NaN operand ==> !r", "f80(NaN) <= f80(1.0)", format!("{}", nan <= one), "false", nan <= one);
    defect("F1 le: NaN operand ==> !r", "f80(1.0) <= f80(NaN)", format!("{}", one <= nan), "false", one <= nan);
    // ---- ge::ensures (NaN clause)
    defect("F2 ge: NaN operand ==> !r", "f80(NaN) >= f80(1.0)", format!("{}", nan >= one), "false", nan >= one);
    defect("F2 ge: NaN operand ==> !r", "f80(1.0) >= f80(NaN)", format!("{}", one >= nan), "false", one >= nan);
    // ---- consequence in partial_cmp (verified modularly against le/ge's contract, so the obligation sits in le/ge)
    defect("F1+F2 consequence in partial_cmp", "f80(NaN).partial_cmp(&f80(1.0))", format!("{:?}", nan.partial_cmp(&one)), "None", nan.partial_cmp(&one) == Some(Ordering::Equal));
    defect("F1+F2 consequence in partial_cmp", "f80(NaN).partial_cmp(&f80(NaN))", format!("{:?}", nan.partial_cmp(&nan)), "None", nan.partial_cmp(&nan) == Some(Ordering::Equal));
    // ---- == vs partial_cmp
    defect("F4 eq_consistent: Equal ==> a == b", "f80(0.0) == f80(-0.0)", format!("{}", pz == nz), "true", !(pz == nz));
    defect("F4 eq_consistent: Equal ==> a == b", "f80(0.0).partial_cmp(&f80(-0.0))", format!("{:?}", pz.partial_cmp(&nz)), "Some(Equal)", pz.partial_cmp(&nz) == Some(Ordering::Equal));
    defect("F3 eq_consistent: a == b ==> Equal", "f80(NaN) == f80(NaN)", format!("{}", nan == nan), "false", nan == nan);
    println!("       bytes  +0 = {:02x?}", bits(pz));
    println!("       bytes  -0 = {:02x?}", bits(nz));
    println!("       bytes NaN = {:02x?}", bits(nan));

    // ---- spot checks of the trusted contracts (assumptions of the unit; these must HOLD)
    let mut check = |what: &str, ok: bool| {
        println!("TRUSTED {:<70} {}", what, if ok { "holds" } else { "VIOLATED" });
        if !ok { bad += 1; }
    };
    check("lt: 1 < 2, !(2 < 1), !(1 < 1)", one < two && !(two < one) && !(one < one));
    check("lt: NaN unordered (both ways, and NaN vs NaN)", !(nan < one) && !(one < nan) && !(nan < nan));
    check("lt: -0 vs +0 not less either way; -0 < 1; -1 < -0", !(nz < pz) && !(pz < nz) && nz < one && -one < nz);
    check("gt (verified): 2 > 1, !(1 > 2), NaN unordered", two > one && !(one > two) && !(nan > one) && !(one > nan));
    check("from(0.0) is the all-zero pattern (+0); from(-0.0) differs only in the sign bit", bits(pz) == [0u8; 10] && bits(nz) == [0, 0, 0, 0, 0, 0, 0, 0, 0, 0x80]);
    check("neg flips exactly the sign bit: -(+0) is -0, -(1) bytes", bits(-pz) == bits(nz) && bits(-one) == [0, 0, 0, 0, 0, 0, 0, 0x80, 0xff, 0xbf]);
    check("neg(NaN) stays NaN (unordered)", !((-nan) < one) && !(one < (-nan)));
    check("min(a,b) == if a < b {a} else {b}:  (1,2)->1 (2,1)->1 (+0,-0)->-0 (-0,+0)->+0",
          bits(one.min(two)) == bits(one) && bits(two.min(one)) == bits(one) && bits(pz.min(nz)) == bits(nz) && bits(nz.min(pz)) == bits(pz));
    check("min with NaN: min(NaN,1) -> 1 (rhs), min(1,NaN) -> NaN (rhs)", bits(nan.min(one)) == bits(one) && bits(one.min(nan)) == bits(nan));
    check("max(a,b) == if a < b {b} else {a}:  (1,2)->2 (2,1)->2 (+0,-0)->+0 (-0,+0)->-0",
          bits(one.max(two)) == bits(two) && bits(two.max(one)) == bits(two) && bits(pz.max(nz)) == bits(pz) && bits(nz.max(pz)) == bits(nz));
    check("max with NaN: max(NaN,1) -> NaN (self), max(1,NaN) -> 1 (self)", bits(nan.max(one)) == bits(nan) && bits(one.max(nan)) == bits(one));
    check("abs (verified): abs(-1) == 1, abs(1) == 1 bytes", bits((-one).abs()) == bits(one) && bits(one.abs()) == bits(one));
    check("abs (verified, value level only): abs(-0) keeps the sign bit (-0 ieq +0)", bits(nz.abs()) == bits(nz));
    check("add_assign etc. (verified): x += y equals x + y bytes", {
        let mut x = one; x += two; let mut y = one; y -= two; let mut z = two; z *= two; let mut w = one; w /= two;
        bits(x) == bits(one + two) && bits(y) == bits(one - two) && bits(z) == bits(two * two) && bits(w) == bits(one / two)
    });
    check("default() is +0 (all-zero pattern)", bits(f80::default()) == [0u8; 10]);
    check("f64 -> f80 -> f64 identity on samples (1.5, -0.0, MIN_POSITIVE subnormal, inf)",
          f64::from(f80::from(1.5)) == 1.5 && f64::from(nz).to_bits() == (-0.0f64).to_bits()
          && f64::from(f80::from(5e-324)) == 5e-324 && f64::from(f80::from(f64::INFINITY)) == f64::INFINITY);
    if bad != 0 {
        println!("{} line(s) unexpected", bad);
        std::process::exit(1);
    }
    println!("all listed defects reproduce; all trusted-contract spot checks hold");
}
