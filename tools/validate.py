#!/usr/bin/env python3-vt
import json, sys, glob, jsonschema
jsonschema.validate(json.load(open('/verif/MANIFEST.json')), json.load(open('/root/.vp/MANIFEST.schema.json')))
sch = json.load(open('/root/.vp/EVIDENCE.schema.json'))
for f in sorted(glob.glob('/verif/evidence/*.json')):
    jsonschema.validate(json.load(open(f)), sch)
    print('ok', f)
print('manifest ok')
