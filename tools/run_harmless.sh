#!/bin/bash
export VERIF_EVIDENCE_DIR=/verif/build/evidence-scratch   # never overwrite the real evidence with runs on patched trees
# tools/run_harmless.sh [id ...]: apply each behaviour-preserving edit to /repo, run the checks of the properties whose
# files it touches, undo.  A VIOLATION (exit 1) on any of them is a false alarm.  Self-test only.
cd /verif
ids="$@"; [ -z "$ids" ] && ids=$(ls harmless)
for id in $ids; do
  git -C /repo status --short | grep -q . && { echo "/repo is dirty, abort"; exit 3; }
  git -C /repo apply /verif/harmless/$id/patch.diff || { echo "$id: patch does not apply"; continue; }
  props=""
  for f in $(git -C /repo diff --name-only); do
    case $f in
      rlib/segtree/src/segtree.rs) props="$props C01 C02";; rlib/segtree/*) props="$props C01";; rlib/treap/*) props="$props C03 C16";;
      rlib/io/src/reader.rs) props="$props C08";; rlib/io/src/writer.rs) props="$props C09";; rlib/mint/*) props="$props C06";;
      rlib/gcd/*) props="$props C11 C07";; rlib/rational/*) props="$props C07";; rlib/dsu/*) props="$props C05";; rlib/bitset/*) props="$props C12";;
      rlib/sieve/*) props="$props C13";; rlib/tensor/*) props="$props C19";; rlib/iter/*) props="$props C15";; rlib/rand/*) props="$props C14";; rlib/f80/*) props="$props C18";;
    esac
  done
  res=""
  for p in $(echo $props | tr ' ' '\n' | sort -u); do
    out=$(./check $p 2>&1); rc=$?
    res="$res $p=$rc"
    echo "$out" > harmless/$id/check_$p.txt
  done
  git -C /repo checkout -- .
  echo "=== $id:$res"
done
