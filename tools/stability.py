#!/usr/bin/env python3
"""tools/stability.py [unit ...] [-n SEEDS]: run every unit/profile under several solver seeds (smt.random_seed) on the current tree and
list every obligation that fails under some seed but not under the default run - such proofs are brittle and would surface as
'unstable' (exit 2) in the thorough tier, or, worse, as false alarms after an unrelated edit.  Development helper."""
import json, os, sys
from concurrent.futures import ThreadPoolExecutor
ROOT = os.path.dirname(os.path.dirname(os.path.abspath(__file__)))
sys.path.insert(0, ROOT)
from vlib import runner
a = sys.argv[1:]
n = 6
if "-n" in a:
    k = a.index("-n"); n = int(a[k + 1]); del a[k:k + 2]
cfg = json.load(open(os.path.join(ROOT, "units.json")))
units = a or sorted(cfg["units"])
known = {f["obligation"] for f in json.load(open(os.path.join(ROOT, "known_findings.json")))["findings"]}
jobs = []
for u in units:
    uc = cfg["units"][u]
    for prof in uc.get("profiles", [{"name": "default", "args": []}]):
        c = dict(uc); c["defines"] = dict(uc.get("defines", {}), **prof.get("defines", {}))
        for s in [None] + [1000003 * k + 17 for k in range(1, n + 1)]:
            jobs.append((u, c, prof, s))
def run(j):
    u, c, prof, s = j
    r = runner.run_unit(u, c, "stab_%s_%s" % (prof["name"], s), prof.get("args", []), False, s)
    return (u, prof["name"], s, r)
bad = 0
with ThreadPoolExecutor(max_workers=14) as ex:
    for (u, pn, s, r) in ex.map(run, jobs):
        if r.status == "infra":
            print("INFRA", u, pn, s, (r.infra_msg or "")[:120]); bad += 1; continue
        ids = [f["id"] for f in r.failures if f["id"] not in known]
        if pn == "maxheap":
            ids = [i for i in ids if "merge_heap_post" not in i]
        if ids:
            bad += 1
            print("UNSTABLE" if s is not None else "FAILS", u, pn, "seed=%s" % s, ids[:3])
print("runs:", len(jobs), "problems:", bad)
