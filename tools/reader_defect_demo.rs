// Demonstration of the two C08 defects of `rlib_io::reader::Reader` (pinned tree), on the real code.
//
// It is an integration test of the `rlib_io` crate.  Never copy it into /repo; use a scratch copy:
//
//   mkdir -p /tmp/demo/repo && cp -r /repo/rlib /repo/Cargo.toml /repo/Cargo.lock /tmp/demo/repo/
//   cp /verif/tools/reader_defect_demo.rs /tmp/demo/repo/rlib/io/tests/reader_defect_demo.rs
//   cd /tmp/demo/repo && CARGO_TARGET_DIR=/tmp/demo/target cargo test -p rlib_io --offline --test reader_defect_demo
//
// pinned tree:    both tests FAIL  (a: panic `called Result::unwrap() on an Err value: ... Interrupted`,
//                                   b: left ["", ""], right ["", "\r"])
// repaired tree (`git -C <copy> apply /verif/tools/proposed_fix_reader.diff`):  both tests pass.
use rlib_io::reader::Reader;
use std::io::{Error, ErrorKind, Read, Result};

/// A byte source with a scripted delivery schedule: every successful `read` delivers at most `chunk`
/// bytes; the calls whose (0-based) index is listed in `interrupt_at` fail with `ErrorKind::Interrupted`
/// and consume nothing (what a signal arriving during a blocking read(2) does).
struct Scripted {
    data: Vec<u8>,
    pos: usize,
    chunk: usize,
    interrupt_at: Vec<usize>,
    calls: usize,
}

impl Scripted {
    fn new(data: &[u8], chunk: usize, interrupt_at: &[usize]) -> Self {
        Scripted { data: data.to_vec(), pos: 0, chunk, interrupt_at: interrupt_at.to_vec(), calls: 0 }
    }
}

impl Read for Scripted {
    fn read(&mut self, buf: &mut [u8]) -> Result<usize> {
        let call = self.calls;
        self.calls += 1;
        if self.interrupt_at.contains(&call) {
            return Err(Error::new(ErrorKind::Interrupted, "interrupted system call"));
        }
        let n = self.chunk.min(buf.len()).min(self.data.len() - self.pos);
        buf[..n].copy_from_slice(&self.data[self.pos..self.pos + n]);
        self.pos += n;
        Ok(n)
    }
}

fn lines(data: &[u8], chunk: usize) -> Vec<String> {
    Reader::new(Box::new(Scripted::new(data, chunk, &[]))).read_lines()
}

/// Defect (a): the `Read` contract says "if the error is of `ErrorKind::Interrupted` kind ... the operation
/// should be retried"; `Reader::refill` calls `.unwrap()` on the result instead, so the first interrupted
/// read aborts the program.  Schedule: input "12 34", the very first `read` call is interrupted.
#[test]
fn a_interrupted_read_is_retried() {
    let mut reader = Reader::new(Box::new(Scripted::new(b"12 34", usize::MAX, &[0])));
    assert_eq!(reader.read::<i32>(), 12);
    assert_eq!(reader.read::<i32>(), 34);
    assert!(reader.is_eof());
}

/// Defect (b): after end of input `peek` returns a stale byte of the internal buffer.  Input "\n\r"
/// (an empty line, then an unterminated last line consisting of a lone CR):
///   * delivered in one read: the buffer still holds '\n' at index 0 when `read_line` looks behind the CR,
///     so it "sees" CR LF, strips the CR and consumes a phantom LF (`begin` = 1 > `end` = 0) -> ["", ""];
///   * delivered one byte per read: index 0 holds the CR itself -> ["", "\r"]  (the correct answer).
/// The result must not depend on how the source splits the stream.
#[test]
fn b_trailing_cr_does_not_depend_on_chunking() {
    let whole = lines(b"\n\r", usize::MAX);
    let bytewise = lines(b"\n\r", 1);
    assert_eq!(whole, bytewise);
    assert_eq!(whole, vec!["".to_string(), "\r".to_string()]);
}
