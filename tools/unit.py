#!/usr/bin/env python3
"""tools/unit.py <unit-or-vc-path> [--canary] [--define NAME] [-- extra verus args]
Development helper: build one unit from $VERIF_REPO (default /repo), run Verus, print mapped diagnostics."""
import json, os, sys
ROOT = os.path.dirname(os.path.dirname(os.path.abspath(__file__)))
sys.path.insert(0, ROOT)
from vlib import runner

def main():
    a = sys.argv[1:]
    extra = []
    if "--" in a:
        k = a.index("--"); extra = a[k + 1:]; a = a[:k]
    canary = "--canary" in a
    defines = {}
    while "--define" in a:
        k = a.index("--define"); nv = a[k + 1].split("=", 1); defines[nv[0]] = nv[1] if len(nv) > 1 else True; del a[k:k + 2]
    profile = None
    if "--profile" in a:
        k = a.index("--profile"); profile = a[k + 1]; del a[k:k + 2]
    a = [x for x in a if not x.startswith("--")]
    unit = a[0]
    cfg = json.load(open(os.path.join(ROOT, "units.json")))
    if unit in cfg["units"]:
        ucfg = cfg["units"][unit]
    else:
        name = os.path.basename(unit).replace(".vc", "")
        ucfg = {"vc": unit if unit.endswith(".vc") else "contracts/%s.vc" % unit, "verus_args": ["--no-erasure-check", "--rlimit", "40"]}
        unit = name
    profs = ucfg.get("profiles", [])
    if profs:
        pr = [x for x in profs if x["name"] == profile] or profs[:1]
        defines = dict(pr[0].get("defines", {}), **defines)
        extra = pr[0].get("args", []) + extra
    ucfg = dict(ucfg, defines=dict(ucfg.get("defines", {}), **defines))
    r = runner.run_unit(unit, ucfg, "dev", extra, canary)
    print("generated:", r.gen_path)
    if r.log:
        for x in r.log.lost_anchors: print("LOST ANCHOR:", x)
        if r.log.dropped: print("not under contract:", ", ".join(d.split("::")[-1] for d in r.log.dropped))
    if r.status == "infra":
        print("INFRA:", r.infra_msg)
        # show rustc errors in full
        import subprocess
        if r.gen_path and "front-end" in (r.infra_msg or ""):
            p = subprocess.run(["verus", r.gen_path, "--triggers-mode", "silent"] + ucfg.get("verus_args", []) + extra, capture_output=True, text=True)
            print(p.stderr[-6000:])
        return 2
    for f in r.failures:
        print("FAIL %s\n     clause: %s   [%s]\n     at:     %s   [%s]  (generated line %s)" % (f["id"], f["clause"], f["clause_origin"], f["at"], f["at_origin"], f["gen_line"]))
    slow = sorted(r.functions, key=lambda f: -f["ms"])[:5]
    print("verified=%d errors=%d smt_ms=%d wall=%.1fs  slowest: %s" % (r.verified, r.errors, r.smt_ms, r.wall_s, ", ".join("%s %dms" % (f["name"], f["ms"]) for f in slow)))
    if canary:
        print("canaries:", r.canaries)
    return 0 if r.status == "ok" else 1
sys.exit(main())
