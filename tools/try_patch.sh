#!/bin/bash
export VERIF_EVIDENCE_DIR=/verif/build/evidence-scratch   # never overwrite the real evidence with runs on patched trees
# tools/try_patch.sh <patch.diff> <PROP>... : apply a patch to /repo, run the checks, undo.  For self-testing only.
p=$1; shift
git -C /repo apply "$p" || { echo "patch does not apply"; exit 3; }
for prop in "$@"; do /verif/check $prop; echo "exit=$?"; done
git -C /repo checkout -- .
