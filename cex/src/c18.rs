//! C18: f80 relations follow the IEEE order of the values; == consistent with partial_cmp.
//! input encoding: "<f64 bits hex>,<f64 bits hex>"
use crate::{guarded, Cex, Outcome};
use rlib_f80::f80;
use std::cmp::Ordering;

fn vals() -> Vec<f64> {
    vec![0.0, -0.0, 1.0, -1.0, 2.5, -2.5, f64::MIN_POSITIVE, 5e-324, -5e-324, f64::MAX, f64::MIN, f64::INFINITY, f64::NEG_INFINITY, f64::NAN, 1.0 + f64::EPSILON, 1e300, -1e-300]
}

fn check(a: f64, b: f64) -> Option<Cex> {
    let r = guarded(|| {
        let (x, y) = (f80::from(a), f80::from(b));
        (x < y, x <= y, x > y, x >= y, x.partial_cmp(&y), x == y)
    });
    let want = (a < b, a <= b, a > b, a >= b, a.partial_cmp(&b), a.partial_cmp(&b) == Some(Ordering::Equal));
    match r {
        Ok(got) if got == want => None,
        other => Some(Cex {
            input: format!("{:016x},{:016x}", a.to_bits(), b.to_bits()),
            observed: format!("a={:?} b={:?}: (<, <=, >, >=, partial_cmp, ==) = {:?}", a, b, other),
            expected: format!("{:?} (IEEE order; == consistent with partial_cmp)", want),
        }),
    }
}

pub fn run(_seed: u64, replay: Option<String>) -> Outcome {
    if let Some(r) = replay {
        let p: Vec<&str> = r.split(',').collect();
        let a = f64::from_bits(u64::from_str_radix(p[0], 16).unwrap_or(0));
        let b = f64::from_bits(u64::from_str_radix(p.get(1).unwrap_or(&"0"), 16).unwrap_or(0));
        return Outcome { cex: check(a, b), cases: 1 };
    }
    let mut cases = 0;
    // ordered operands first, so that a *new* violation is reported ahead of the known NaN / signed-zero findings
    let v = vals();
    for pass in 0..2 {
        for &a in &v {
            for &b in &v {
                let special = a.is_nan() || b.is_nan() || (a == 0.0 && b == 0.0);
                if (pass == 0) == special {
                    continue;
                }
                cases += 1;
                if let Some(c) = check(a, b) {
                    return Outcome { cex: Some(c), cases };
                }
            }
        }
    }
    Outcome { cex: None, cases }
}
