//! C18: f80 relations follow the IEEE order of the values; == consistent with partial_cmp.
//! input encoding: "<f64 bits hex>,<f64 bits hex>"
use crate::{guarded, Cex, Outcome};
use rlib_f80::f80;
use std::cmp::Ordering;

fn vals() -> Vec<f64> {
    vec![0.0, -0.0, 1.0, -1.0, 2.5, -2.5, f64::MIN_POSITIVE, 5e-324, -5e-324, f64::MAX, f64::MIN, 3.0, -7.0, 0.5, 1024.0, -1048576.0, 1e-310, -1e-310, f64::INFINITY, f64::NEG_INFINITY, f64::NAN, 1.0 + f64::EPSILON, 1e300, -1e-300]
}

/// abs / neg / min / max / exact small-integer arithmetic and the assigning operators, for ordered operands
fn check_ops(a: f64, b: f64) -> Option<Cex> {
    if a.is_nan() || b.is_nan() { return None; }
    let r = guarded(|| {
        let (x, y) = (f80::from(a), f80::from(b));
        let mut v: Vec<(&str, f64, f64)> = vec![("abs", f64::from(x.abs()), a.abs()), ("neg", f64::from(-x), -a), ("f64 -> f80 -> f64", f64::from(x), a), ("neg neg", f64::from(-(-x)), a)];
        if !(a == 0.0 && b == 0.0) {
            v.push(("min", f64::from(x.min(y)), a.min(b)));
            v.push(("max", f64::from(x.max(y)), a.max(b)));
        }
        // abs is never below zero and agrees in order with the operand's magnitude
        if x.abs() < f80::from(0.0) { v.push(("abs(x) < 0", 1.0, 0.0)); }
        if x.abs().partial_cmp(&(-x).abs()) != Some(std::cmp::Ordering::Equal) { v.push(("abs(x) vs abs(-x)", 1.0, 0.0)); }
        // exactly representable arithmetic (small integers / halves): results must be exact
        if a.abs() <= 1048576.0 && b.abs() <= 1048576.0 && a.fract() * 2.0 == (a.fract() * 2.0).trunc() && b.fract() * 2.0 == (b.fract() * 2.0).trunc() {
            v.push(("add", f64::from(x + y), a + b));
            v.push(("sub", f64::from(x - y), a - b));
            v.push(("mul", f64::from(x * y), a * b));
            let mut t = x; t += y; v.push(("add_assign", f64::from(t), a + b));
            let mut t = x; t -= y; v.push(("sub_assign", f64::from(t), a - b));
            let mut t = x; t *= y; v.push(("mul_assign", f64::from(t), a * b));
            if b != 0.0 && (a / b) * b == a && (a / b).fract() == 0.0 {
                v.push(("div", f64::from(x / y), a / b));
                let mut t = x; t /= y; v.push(("div_assign", f64::from(t), a / b));
            }
        }
        v
    });
    match r {
        Err(e) => Some(Cex { input: format!("ops:{:016x},{:016x}", a.to_bits(), b.to_bits()), observed: e, expected: "no panic".into() }),
        // arithmetic, negation and conversions: bit patterns, so that the sign of a zero result counts (any NaN matches any NaN);
        // abs / min / max are specified through the IEEE *order* of the values (-0 equal to +0): compared by value
        Ok(v) => v.into_iter().find(|(n, g, w)| !(g.to_bits() == w.to_bits() || (g.is_nan() && w.is_nan()) || (["abs", "min", "max"].contains(n) && g == w))).map(|(n, g, w)| Cex {
            input: format!("ops:{:016x},{:016x}", a.to_bits(), b.to_bits()),
            observed: format!("a={:?} b={:?}: {} gave {:?}", a, b, n, g), expected: format!("{:?}", w) }),
    }
}

type Rel = (bool, bool, bool, bool, Option<Ordering>, bool);
fn rel(a: f64, b: f64) -> Result<Rel, String> {
    guarded(|| {
        let (x, y) = (f80::from(a), f80::from(b));
        (x < y, x <= y, x > y, x >= y, x.partial_cmp(&y), x == y)
    })
}
fn rel_want(a: f64, b: f64) -> Rel {
    (a < b, a <= b, a > b, a >= b, a.partial_cmp(&b), a.partial_cmp(&b) == Some(Ordering::Equal))
}
/// is this disagreement an instance of one of the RECORDED defects (known_findings.json)?  `<=` / `>=` true and partial_cmp Some(Equal) with a
/// NaN operand; `==` true for identical NaN patterns; `==` false for zeros of different sign.  Anything else is new.
fn known_class(a: f64, b: f64, got: &Rel, want: &Rel) -> bool {
    if a.is_nan() || b.is_nan() {
        let same_pattern = a.to_bits() == b.to_bits();
        return !got.0 && !got.2 && got.1 && got.3 && got.4 == Some(Ordering::Equal) && got.5 == same_pattern;
    }
    if a == 0.0 && b == 0.0 && a.to_bits() != b.to_bits() {
        return (got.0, got.1, got.2, got.3, got.4) == (want.0, want.1, want.2, want.3, want.4) && !got.5;
    }
    false
}
fn check(a: f64, b: f64) -> Option<Cex> {
    let r = rel(a, b);
    let want = rel_want(a, b);
    match r {
        Ok(got) if got == want => None,
        other => Some(Cex {
            input: format!("{:016x},{:016x}", a.to_bits(), b.to_bits()),
            observed: format!("a={:?} b={:?}: (<, <=, >, >=, partial_cmp, ==) = {:?}", a, b, other),
            expected: format!("{:?} (IEEE order; == consistent with partial_cmp)", want),
        }),
    }
}

/// comparisons are re-evaluated every time they are executed (the operands are read from memory by inline asm): the same two places
/// compared again after one of them was stored to.  Only an optimised build can get this wrong.
#[inline(never)]
fn steps_until(limit: f64, step: f64) -> u32 {
    let limit = f80::from(limit);
    let step = f80::from(step);
    let mut x = f80::from(0.0);
    let mut n = 0u32;
    while x < limit && n < 1000 {
        x += step;
        n += 1;
    }
    n
}
#[inline(never)]
fn steps_down(limit: f64, step: f64) -> u32 {
    let (limit, step) = (f80::from(limit), f80::from(step));
    let mut x = f80::from(0.0);
    let mut n = 0u32;
    while x > limit && n < 1000 { x -= step; n += 1; }
    let mut y = f80::from(0.0);
    while y >= limit && n < 2000 { y -= step; n += 1; }
    n
}
fn check_loops() -> Option<Cex> {
    let r = guarded(|| {
        let mut a = f80::from(1.0);
        let b = f80::from(2.0);
        let first = a < b;
        a = a + b + b;
        let second = a < b;
        let third = a.abs() >= b;
        (steps_until(10.0, 1.0), steps_until(0.75, 0.25), steps_until(-1.0, 1.0), steps_down(-4.0, 1.0), first, second, third)
    });
    let want = (10u32, 3u32, 0u32, 9u32, true, false, true);
    match r {
        Ok(g) if g == want => None,
        other => Some(Cex { input: "loops".into(), observed: format!("(steps_until(10,1), steps_until(.75,.25), steps_until(-1,1), steps_down(-4,1), 1<2, 5<2, |5|>=2) = {:?}", other), expected: format!("{:?}", want) }),
    }
}

pub fn run(_seed: u64, replay: Option<String>) -> Outcome {
    if replay.as_deref() == Some("loops") {
        return Outcome { cex: check_loops(), cases: 1 };
    }
    if let Some(r) = replay {
        let ops = r.starts_with("ops:");
        let r = r.trim_start_matches("ops:").to_string();
        let p: Vec<&str> = r.split(',').collect();
        let a = f64::from_bits(u64::from_str_radix(p[0], 16).unwrap_or(0));
        let b = f64::from_bits(u64::from_str_radix(p.get(1).unwrap_or(&"0"), 16).unwrap_or(0));
        return Outcome { cex: if ops { check_ops(a, b) } else { check(a, b) }, cases: 1 };
    }
    let mut cases = 1;
    if let Some(c) = check_loops() {
        return Outcome { cex: Some(c), cases };
    }
    // ordered operands first, so that a *new* violation is reported ahead of the known NaN / signed-zero findings
    let known: Vec<String> = std::env::var("VERIF_KNOWN_INPUTS").unwrap_or_default().split('|').filter(|x| !x.is_empty()).map(|x| x.to_string()).collect();
    let mut at_known: Option<Cex> = None;
    let v = vals();
    for pass in 0..2 {
        for &a in &v {
            for &b in &v {
                let special = a.is_nan() || b.is_nan() || (a == 0.0 && b == 0.0);
                if (pass == 0) == special {
                    continue;
                }
                cases += 1;
                if let Some(c) = check(a, b) {
                    // the recorded inputs of known findings do not end the enumeration: what lies behind them is still explored; the first of
                    // them is reported at the end if nothing new was found
                    let is_known = !known.is_empty() && rel(a, b).map(|g| known_class(a, b, &g, &rel_want(a, b))).unwrap_or(false);
                    if is_known {
                        if at_known.is_none() { at_known = Some(c); }
                    } else {
                        return Outcome { cex: Some(c), cases };
                    }
                }
                if pass == 0 {
                    cases += 1;
                    if let Some(c) = check_ops(a, b) {
                        return Outcome { cex: Some(c), cases };
                    }
                }
            }
        }
    }
    // instances of the recorded defects were met: answer with the recorded input itself (if it still fails), so that the caller can match it
    if at_known.is_some() {
        for k in &known {
            let p: Vec<&str> = k.split(',').collect();
            if p.len() == 2 {
                let (a, b) = (f64::from_bits(u64::from_str_radix(p[0], 16).unwrap_or(0)), f64::from_bits(u64::from_str_radix(p[1], 16).unwrap_or(0)));
                if let Some(c) = check(a, b) { return Outcome { cex: Some(c), cases }; }
            }
        }
    }
    Outcome { cex: at_known, cases }
}
