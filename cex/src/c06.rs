//! C06: Modular<M> against i128 arithmetic. input encoding: "<M>;<x>;<y>;<d>"
use crate::{guarded, Cex, Outcome};
use rlib_mint::Modular;

fn md(x: i128, m: i128) -> i128 { ((x % m) + m) % m }
fn powm(mut a: i128, mut d: u64, m: i128) -> i128 { let mut r = 1 % m; a = md(a, m); while d > 0 { if d & 1 == 1 { r = r * a % m; } a = a * a % m; d >>= 1; } r }
fn gcd(a: i128, b: i128) -> i128 { if b == 0 { a } else { gcd(b, a % b) } }

fn check_m<const M: u32>(x: i64, y: i64, d: u64) -> Option<(String, String)> {
    let m = M as i128;
    let r = guarded(|| {
        let (a, b) = (Modular::<M>::new(x), Modular::<M>::new(y));
        let mut v = vec![("new", a.inner() as i128, md(x as i128, m)), ("add", (a + b).inner() as i128, md(x as i128 + y as i128, m)),
            ("sub", (a - b).inner() as i128, md(x as i128 - y as i128, m)), ("mul", (a * b).inner() as i128, md(md(x as i128, m) * md(y as i128, m), m)),
            ("neg", (-a).inner() as i128, md(-(x as i128), m)), ("pow", a.pow(d).inner() as i128, powm(x as i128, d, m))];
        let mut t = a; t += b; v.push(("add_assign", t.inner() as i128, md(x as i128 + y as i128, m)));
        let mut t = a; t -= b; v.push(("sub_assign", t.inner() as i128, md(x as i128 - y as i128, m)));
        let mut t = a; t *= b; v.push(("mul_assign", t.inner() as i128, md(md(x as i128, m) * md(y as i128, m), m)));
        // reading and writing go through the canonical representative
        {
            let text = format!("{} {}", x, y);
            let mut rd = rlib_io::Reader::new(Box::new(std::io::Cursor::new(text.into_bytes())));
            let ra: Modular<M> = rd.read();
            let rb: Modular<M> = rd.read();
            v.push(("read x", ra.inner() as i128, md(x as i128, m)));
            v.push(("read y", rb.inner() as i128, md(y as i128, m)));
            let mut outb: Vec<u8> = Vec::new();
            {
                let mut w = rlib_io::Writer::new(Box::new(&mut outb));
                w.write(&a);
                w.write_char(' ');
                w.write(&(a - b));
            }
            let want = format!("{} {}", md(x as i128, m), md(x as i128 - y as i128, m));
            v.push(("written text", if String::from_utf8_lossy(&outb) == want { 0 } else { 1 }, 0));
            v.push(("Display", if format!("{} {:?}", a, a) == format!("{} {}", md(x as i128, m), md(x as i128, m)) { 0 } else { 1 }, 0));
        }
        if gcd(md(y as i128, m), m) == 1 {
            v.push(("(x/y)*y", ((a / b) * b).inner() as i128, md(x as i128, m)));
            let mut t = a; t /= b; v.push(("div_assign*y", (t * b).inner() as i128, md(x as i128, m)));
            v.push(("inv*y", (b.inv() * b).inner() as i128, 1 % m));
        }
        v
    });
    match r {
        Err(e) => Some((e, "no panic".into())),
        Ok(v) => v.into_iter().find(|(_, g, w)| g != w).map(|(n, g, w)| (format!("{} gave {}", n, g), format!("{}", w))),
    }
}

fn check(m: u32, x: i64, y: i64, d: u64) -> Option<Cex> {
    let r = match m {
        2 => check_m::<2>(x, y, d), 3 => check_m::<3>(x, y, d), 4 => check_m::<4>(x, y, d), 6 => check_m::<6>(x, y, d), 7 => check_m::<7>(x, y, d),
        12 => check_m::<12>(x, y, d), 998244353 => check_m::<998244353>(x, y, d), 1000000007 => check_m::<1000000007>(x, y, d),
        2147483647 => check_m::<2147483647>(x, y, d), 2147483646 => check_m::<2147483646>(x, y, d), 2147483629 => check_m::<2147483629>(x, y, d),
        _ => None,
    };
    r.map(|(o, e)| Cex { input: format!("{};{};{};{}", m, x, y, d), observed: format!("M={} x={} y={} d={}: {}", m, x, y, d, o), expected: e })
}

pub fn run(_seed: u64, replay: Option<String>) -> Outcome {
    if let Some(r) = replay {
        let p: Vec<i128> = r.split(';').map(|x| x.parse().unwrap_or(0)).collect();
        return Outcome { cex: check(p[0] as u32, p[1] as i64, p[2] as i64, p[3] as u64), cases: 1 };
    }
    let mut cases = 0;
    for m in [2u32, 3, 4, 6, 7, 12] {
        for x in -(m as i64) - 1..=2 * m as i64 {
            for y in -1..=m as i64 + 1 {
                for d in [0u64, 1, 2, 5, 7, 22, m as u64, m as u64 + 1, 2 * m as u64 - 1, u64::MAX, u64::MAX - 1] {
                    cases += 1;
                    if let Some(c) = check(m, x, y, d) { return Outcome { cex: Some(c), cases }; }
                }
            }
        }
    }
    let edge = [i64::MIN, i64::MIN + 1, -1, 0, 1, 2, i64::MAX, i64::MAX - 1];
    for m in [998244353u32, 1000000007, 2147483647, 2147483646, 2147483629] {
        let mut xs: Vec<i64> = edge.to_vec();
        for k in [-2i64, -1, 0, 1, 2] { xs.push(m as i64 + k); xs.push(-(m as i64) + k); xs.push(2 * m as i64 + k); xs.push(m as i64 / 2 + k); }
        for &x in &xs { for &y in &xs { for d in [0u64, 1, 3, u64::MAX, m as u64 - 1] {
            cases += 1;
            if let Some(c) = check(m, x, y, d) { return Outcome { cex: Some(c), cases }; }
        } } }
    }
    Outcome { cex: None, cases }
}
