//! C01 / C02: segment tree against a plain array, over a NON-COMMUTATIVE merge (byte-string concatenation)
//! with NON-COMMUTING modifiers (affine maps b -> (a*b + c) mod 11 applied to every byte).
//! input encoding: "n;op;op;..."  ops: s<i>:<bytes hex>  m<l>-<r>:<a>,<c>  a<l>-<r>  f<l>:<k>  b<r>:<k>
//!   f = lower_bound(l, |agg| len(agg) >= k)   b = lower_bound_rev(r, |agg| len(agg) >= k)
use crate::{guarded, Cex, Lcg, Outcome};
use rlib_segtree::{Segtree, SegtreeItem};

#[derive(Clone, Debug, Default, PartialEq)]
struct It {
    s: Vec<u8>,
    pa: u8, // pending affine map x -> pa*x + pc (mod 11); identity = (1, 0)
    pc: u8,
    has: bool,
}
fn app(a: u8, c: u8, x: u8) -> u8 {
    ((a as u32 * x as u32 + c as u32) % 11) as u8
}
impl It {
    fn leaf(s: Vec<u8>) -> Self {
        It { s, pa: 1, pc: 0, has: false }
    }
}
impl SegtreeItem<(u8, u8)> for It {
    fn merge(l: &Self, r: &Self) -> Self {
        let mut s = l.s.clone();
        s.extend_from_slice(&r.s);
        It::leaf(s)
    }
    fn modify(&mut self, m: &(u8, u8)) {
        for b in self.s.iter_mut() {
            *b = app(m.0, m.1, *b);
        }
        // compose: first pending, then m
        let (a, c) = if self.has { (self.pa, self.pc) } else { (1, 0) };
        self.pa = ((m.0 as u32 * a as u32) % 11) as u8;
        self.pc = ((m.0 as u32 * c as u32 + m.1 as u32) % 11) as u8;
        self.has = true;
    }
    fn push(&mut self, l: &mut Self, r: &mut Self) {
        if self.has {
            let m = (self.pa, self.pc);
            l.modify(&m);
            r.modify(&m);
            self.pa = 1;
            self.pc = 0;
            self.has = false;
        }
    }
}

#[derive(Clone, Debug)]
enum Op {
    Set(usize, Vec<u8>),
    Mod(usize, usize, u8, u8),
    Ask(usize, usize),
    Fwd(usize, usize),
    Bwd(usize, usize),
}

fn enc(n: usize, ctor: u8, ops: &[Op]) -> String {
    let mut v = vec![format!("{}:{}", n, ctor)];
    for o in ops {
        v.push(match o {
            Op::Set(i, s) => format!("s{}:{}", i, s.iter().map(|b| format!("{:02x}", b)).collect::<String>()),
            Op::Mod(l, r, a, c) => format!("m{}-{}:{},{}", l, r, a, c),
            Op::Ask(l, r) => format!("a{}-{}", l, r),
            Op::Fwd(l, k) => format!("f{}:{}", l, k),
            Op::Bwd(r, k) => format!("b{}:{}", r, k),
        });
    }
    v.join(";")
}
fn dec(s: &str) -> Option<(usize, u8, Vec<Op>)> {
    let mut it = s.split(';');
    let head = it.next()?;
    let mut h = head.split(':');
    let n: usize = h.next()?.parse().ok()?;
    let ctor: u8 = h.next().unwrap_or("0").parse().ok()?;
    let mut ops = Vec::new();
    for o in it {
        let (k, rest) = o.split_at(1);
        let two = |x: &str, sep: char| -> Option<(usize, usize)> {
            let mut p = x.split(sep);
            Some((p.next()?.parse().ok()?, p.next()?.parse().ok()?))
        };
        ops.push(match k {
            "s" => {
                let mut p = rest.split(':');
                let i = p.next()?.parse().ok()?;
                let hx = p.next().unwrap_or("");
                Op::Set(i, (0..hx.len() / 2).map(|j| u8::from_str_radix(&hx[2 * j..2 * j + 2], 16).unwrap_or(0)).collect())
            }
            "m" => {
                let mut p = rest.split(':');
                let (l, r) = two(p.next()?, '-')?;
                let (a, c) = two(p.next()?, ',')?;
                Op::Mod(l, r, a as u8, c as u8)
            }
            "a" => {
                let (l, r) = two(rest, '-')?;
                Op::Ask(l, r)
            }
            "f" => {
                let (l, k) = two(rest, ':')?;
                Op::Fwd(l, k)
            }
            "b" => {
                let (r, k) = two(rest, ':')?;
                Op::Bwd(r, k)
            }
            _ => return None,
        });
    }
    Some((n, ctor, ops))
}

fn init_val(i: usize) -> Vec<u8> {
    vec![(i % 11) as u8; 1 + i % 2]
}

fn exec(n: usize, ctor: u8, ops: &[Op], only_c02: bool) -> Option<(String, String)> {
    let r = guarded(|| {
        let mut model: Vec<Vec<u8>> = (0..n).map(init_val).collect();
        let items: Vec<It> = model.iter().map(|s| It::leaf(s.clone())).collect();
        let mut t: Segtree<It, (u8, u8)> = match ctor {
            0 => Segtree::from_slice(&items),
            1 => Segtree::from_iter(items.clone().into_iter()),
            _ => {
                model = vec![vec![3u8]; n];
                Segtree::new(n, It::leaf(vec![3u8]))
            }
        };
        for o in ops {
            match o {
                Op::Set(i, s) => {
                    t.set(*i, It::leaf(s.clone()));
                    model[*i] = s.clone();
                }
                Op::Mod(l, r, a, c) => {
                    t.modify(*l, *r, &(*a, *c));
                    for x in model[*l..=*r].iter_mut() {
                        for b in x.iter_mut() {
                            *b = app(*a, *c, *b);
                        }
                    }
                }
                Op::Ask(l, r) => {
                    let got = t.ask(*l, *r).s;
                    let want: Vec<u8> = model[*l..=*r].concat();
                    if got != want && !only_c02 {
                        return Some((format!("ask({},{}) = {:?}", l, r, got), format!("{:?} (left-to-right merge of the plain array)", want)));
                    }
                }
                Op::Fwd(l, k) => {
                    let seen: std::cell::RefCell<Vec<Vec<u8>>> = std::cell::RefCell::new(Vec::new());
                    // k >= 100 encodes the predicate `len == 0 || len >= k - 100`: true on the empty aggregate, which is the aggregate of no
                    // range; it is monotone along the ranges [l, r] whenever the first element is not empty (only then is it used)
                    let zero_ok = *k >= 100 && !model[*l].is_empty();
                    let kk = if *k >= 100 { *k - 100 } else { *k };
                    let got = t.lower_bound(*l, |it: &It| {
                        seen.borrow_mut().push(it.s.clone());
                        (zero_ok && it.s.is_empty()) || it.s.len() >= kk
                    });
                    let mut want = None;
                    let mut acc = 0;
                    for r in *l..n {
                        acc += model[r].len();
                        if acc >= kk {
                            want = Some(r);
                            break;
                        }
                    }
                    if got != want {
                        return Some((format!("lower_bound({}, len>={}) = {:?}", l, k, got), format!("{:?}", want)));
                    }
                    for s in seen.into_inner() {
                        // every aggregate shown to the predicate is the in-order merge of some [l..=j] (or the empty range)
                        let ok = (*l..=n).any(|j| model[*l..j.min(n)].concat() == s);
                        if !ok {
                            return Some((format!("lower_bound({},..) showed the predicate the aggregate {:?}", l, s), "the in-order merge of a range starting at l".into()));
                        }
                    }
                }
                Op::Bwd(r, k) => {
                    let seen: std::cell::RefCell<Vec<Vec<u8>>> = std::cell::RefCell::new(Vec::new());
                    let zero_ok = *k >= 100 && !model[*r].is_empty();
                    let kk = if *k >= 100 { *k - 100 } else { *k };
                    let got = t.lower_bound_rev(*r, |it: &It| {
                        seen.borrow_mut().push(it.s.clone());
                        (zero_ok && it.s.is_empty()) || it.s.len() >= kk
                    });
                    let mut want = None;
                    let mut acc = 0;
                    for l in (0..=*r).rev() {
                        acc += model[l].len();
                        if acc >= kk {
                            want = Some(l);
                            break;
                        }
                    }
                    if got != want {
                        return Some((format!("lower_bound_rev({}, len>={}) = {:?}", r, k, got), format!("{:?}", want)));
                    }
                    for s in seen.into_inner() {
                        let ok = (0..=*r + 1).any(|j| model[j..=*r].concat() == s) || s.is_empty();
                        if !ok {
                            return Some((format!("lower_bound_rev({},..) showed the predicate the aggregate {:?}", r, s), "the in-order merge of a range ending at r".into()));
                        }
                    }
                }
            }
        }
        // final state: every single element
        if !only_c02 {
            for i in 0..n {
                let got = t.ask(i, i).s;
                if got != model[i] {
                    return Some((format!("after the history ask({},{}) = {:?}", i, i, got), format!("{:?}", model[i])));
                }
            }
        }
        None
    });
    match r {
        Ok(x) => x,
        Err(e) => Some((e, "no panic".into())),
    }
}

// ---------------------------------------------------------------- built-in items and the pair combinator (C01)
use rlib_segtree::segtree_items::{Combinator, Max, MaxAdd, Min, MinAdd, Sum, SumAdd};
type Nest = Combinator<SumAdd<i64>, Combinator<MinAdd<i64>, MaxAdd<i64>>>;

/// history "B<n>;<ctor>;op;op.." with op = s<i>:<v> | m<l>-<r>:<d> | a<l>-<r> : the nested combinator must agree with its three components run
/// side by side, with the non-lazy Min / Max / Sum trees (sets and asks only) and with a plain array
fn builtin_exec(n: usize, ctor: u8, ops: &[(char, usize, usize, i64)]) -> Option<(String, String)> {
    let r = guarded(|| {
        let init: Vec<i64> = (0..n as i64).map(|i| (i * 7) % 5 - 2).collect();
        let mut a = init.clone();
        let mk = |v: &Vec<i64>| -> Segtree<Nest, i64> {
            let items: Vec<Nest> = v.iter().map(|&x| Nest::from(x)).collect();
            match ctor { 0 => Segtree::from_slice(&items), _ => Segtree::from_iter(items.into_iter()) }
        };
        let mut t = mk(&a);
        let mut ts: Segtree<SumAdd<i64>, i64> = Segtree::from_slice(&a.iter().map(|&x| SumAdd::new(x)).collect::<Vec<_>>());
        let mut tmn: Segtree<MinAdd<i64>, i64> = Segtree::from_slice(&a.iter().map(|&x| MinAdd::new(x)).collect::<Vec<_>>());
        let mut tmx: Segtree<MaxAdd<i64>, i64> = Segtree::from_slice(&a.iter().map(|&x| MaxAdd::new(x)).collect::<Vec<_>>());
        let mut pl_min: Segtree<Min<i64>, ()> = Segtree::from_slice(&a.iter().map(|&x| Min::new(x)).collect::<Vec<_>>());
        let mut pl_max: Segtree<Max<i64>, ()> = Segtree::from_slice(&a.iter().map(|&x| Max::new(x)).collect::<Vec<_>>());
        let mut pl_sum: Segtree<Sum<i64>, ()> = Segtree::from_slice(&a.iter().map(|&x| Sum::new(x)).collect::<Vec<_>>());
        let mut plain_ok = true; // the non-lazy trees follow as long as no range modification happened
        for &(op, l, r, d) in ops {
            match op {
                's' => {
                    a[l] = d;
                    t.set(l, Nest::from(d)); ts.set(l, SumAdd::new(d)); tmn.set(l, MinAdd::new(d)); tmx.set(l, MaxAdd::new(d));
                    pl_min.set(l, Min::new(d)); pl_max.set(l, Max::new(d)); pl_sum.set(l, Sum::new(d));
                }
                'm' => {
                    for x in a[l..=r].iter_mut() { *x += d; }
                    t.modify(l, r, &d); ts.modify(l, r, &d); tmn.modify(l, r, &d); tmx.modify(l, r, &d);
                    plain_ok = false;
                }
                'r' => {
                    // a construction in the middle of the history: every tree is rebuilt from the items its own point queries return
                    // (such items may carry whatever bookkeeping the tree left in them; as elements they still stand for their value)
                    let it: Vec<Nest> = (0..n).map(|i| t.ask(i, i)).collect();
                    t = if d % 2 == 0 { Segtree::from_slice(&it) } else { Segtree::from_iter(it.into_iter()) };
                    let it: Vec<SumAdd<i64>> = (0..n).map(|i| ts.ask(i, i)).collect(); ts = Segtree::from_slice(&it);
                    let it: Vec<MinAdd<i64>> = (0..n).map(|i| tmn.ask(i, i)).collect(); tmn = Segtree::from_slice(&it);
                    let it: Vec<MaxAdd<i64>> = (0..n).map(|i| tmx.ask(i, i)).collect(); tmx = Segtree::from_slice(&it);
                }
                'n' => {
                    // construct-by-fill from an item a query returned: n copies of the element at l
                    let (f1, f2, f3, f4) = (t.ask(l, l), ts.ask(l, l), tmn.ask(l, l), tmx.ask(l, l));
                    t = Segtree::new(n, f1); ts = Segtree::new(n, f2); tmn = Segtree::new(n, f3); tmx = Segtree::new(n, f4);
                    let x = a[l];
                    a = vec![x; n];
                    plain_ok = false;
                }
                _ => {
                    let want = (a[l..=r].iter().sum::<i64>(), *a[l..=r].iter().min().unwrap(), *a[l..=r].iter().max().unwrap());
                    let g = t.ask(l, r);
                    let nest = (g.0.v, (g.1).0.v, (g.1).1.v);
                    let side = (ts.ask(l, r).v, tmn.ask(l, r).v, tmx.ask(l, r).v);
                    if nest != want || side != want {
                        return Some((format!("ask({},{}): nested combinator (sum, min, max) = {:?}, components side by side = {:?}", l, r, nest, side), format!("{:?}", want)));
                    }
                    if plain_ok {
                        let p = (pl_sum.ask(l, r).v, pl_min.ask(l, r).v, pl_max.ask(l, r).v);
                        if p != want { return Some((format!("ask({},{}): Sum / Min / Max trees = {:?}", l, r, p), format!("{:?}", want))); }
                    }
                }
            }
        }
        None
    });
    match r { Ok(x) => x, Err(e) => Some((e, "no panic".into())) }
}
fn builtin_enc(n: usize, ctor: u8, ops: &[(char, usize, usize, i64)]) -> String {
    format!("B{};{};{}", n, ctor, ops.iter().map(|(o, l, r, d)| format!("{}{}-{}:{}", o, l, r, d)).collect::<Vec<_>>().join(";"))
}
fn builtin_dec(s: &str) -> Option<(usize, u8, Vec<(char, usize, usize, i64)>)> {
    let p: Vec<&str> = s.split(';').collect();
    let n = p[0][1..].parse().ok()?;
    let ctor = p.get(1)?.parse().ok()?;
    let ops = p[2..].iter().filter(|x| !x.is_empty()).filter_map(|o| {
        let c = o.chars().next()?;
        let q: Vec<&str> = o[1..].split(|ch| ch == '-' || ch == ':').collect();
        // a negative delta carries its own '-': re-join
        let (l, r) = (q.get(0)?.parse().ok()?, q.get(1)?.parse().ok()?);
        let d: i64 = o[1..].splitn(2, ':').nth(1)?.parse().ok()?;
        Some((c, l, r, d))
    }).collect();
    Some((n, ctor, ops))
}

pub fn run(seed: u64, replay: Option<String>, c02: bool) -> Outcome {
    if let Some(r) = &replay {
        if r.starts_with('B') {
            let c = builtin_dec(r).and_then(|(n, ctor, ops)| builtin_exec(n, ctor, &ops)).map(|(o, e)| Cex { input: r.clone(), observed: o, expected: e });
            return Outcome { cex: c, cases: 1 };
        }
    }
    if let Some(r) = replay {
        let c = dec(&r).and_then(|(n, ctor, ops)| exec(n, ctor, &ops, false)).map(|(o, e)| Cex { input: r.clone(), observed: o, expected: e });
        return Outcome { cex: c, cases: 1 };
    }
    let mut cases = 0;
    let mut rng = Lcg(seed ^ 0xc01);
    if !c02 {
        for round in 0..3000u64 {
            let n = 1 + (round % 9) as usize;
            let ctor = (round / 9 % 2) as u8;
            let mut ops = Vec::new();
            for _ in 0..(1 + rng.below(7)) {
                let l = rng.below(n as u64) as usize;
                let r = l + rng.below((n - l) as u64) as usize;
                let d = rng.below(9) as i64 - 4;
                ops.push(match rng.below(7) { 0 => ('s', l, l, d), 1 | 2 => ('m', l, r, d), 5 => ('r', 0, 0, d), 6 => ('n', l, l, 0), _ => ('a', l, r, 0) });
            }
            cases += 1;
            if builtin_exec(n, ctor, &ops).is_some() {
                let mut best = ops.clone();
                let mut changed = true;
                while changed {
                    changed = false;
                    for i in 0..best.len() {
                        let mut t = best.clone();
                        t.remove(i);
                        if builtin_exec(n, ctor, &t).is_some() { best = t; changed = true; break; }
                    }
                }
                let (o, e) = builtin_exec(n, ctor, &best).unwrap();
                return Outcome { cex: Some(Cex { input: builtin_enc(n, ctor, &best), observed: o, expected: e }), cases };
            }
        }
    }
    for round in 0..6000u64 {
        let n = 1 + (round % 9) as usize;
        let ctor = (round / 9 % 3) as u8;
        let len = 1 + rng.below(6) as usize;
        let mut ops = Vec::new();
        for _ in 0..len {
            let l = rng.below(n as u64) as usize;
            let r = l + rng.below((n - l) as u64) as usize;
            ops.push(match rng.below(if c02 { 7 } else { 5 }) {
                0 => Op::Set(l, vec![rng.below(11) as u8; rng.below(3) as usize]),
                1 | 2 => Op::Mod(l, r, 1 + rng.below(10) as u8, rng.below(11) as u8),
                3 => Op::Ask(l, r),
                4 | 5 => Op::Fwd(l, rng.below(8) as usize + if rng.below(4) == 0 { 100 } else { 0 }),
                _ => Op::Bwd(r, rng.below(8) as usize + if rng.below(4) == 0 { 100 } else { 0 }),
            });
            if c02 && rng.below(2) == 0 {
                ops.push(Op::Bwd(r, rng.below(8) as usize + if rng.below(4) == 0 { 100 } else { 0 }));
            }
        }
        cases += 1;
        if let Some((o, e)) = exec(n, ctor, &ops, false) {
            // shrink: drop ops while it still fails
            let mut best = ops.clone();
            let mut changed = true;
            while changed {
                changed = false;
                for i in 0..best.len() {
                    let mut t = best.clone();
                    t.remove(i);
                    if exec(n, ctor, &t, false).is_some() {
                        best = t;
                        changed = true;
                        break;
                    }
                }
            }
            let (o2, e2) = exec(n, ctor, &best, false).unwrap_or((o, e));
            return Outcome { cex: Some(Cex { input: enc(n, ctor, &best), observed: o2, expected: e2 }), cases };
        }
    }
    Outcome { cex: None, cases }
}
