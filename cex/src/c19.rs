//! C19: tensor indexing is a row-major bijection, out-of-range indices panic, equality needs shape AND elements.
//! input encoding: "eq;d0,d1;e0,e1"  |  "idx;d0,d1,d2;i0,i1,i2"  |  "rank;<D>;<d0,..>" (every check of `rank_case` for that shape)
use crate::{guarded, Cex, Outcome};
use rlib_tensor::Tensor;

fn nums(s: &str) -> Vec<usize> {
    s.split(',').filter(|x| !x.is_empty()).map(|x| x.parse().unwrap_or(0)).collect()
}

fn check_eq(a: [usize; 2], b: [usize; 2]) -> Option<Cex> {
    if a[0] * a[1] != b[0] * b[1] {
        return None;
    }
    let n = a[0] * a[1];
    let v: Vec<u32> = (0..n as u32).collect();
    let r = guarded(|| Tensor::<u32, 2>::from_vec(a, v.clone()) == Tensor::<u32, 2>::from_vec(b, v.clone()));
    let want = a == b;
    match r {
        Ok(x) if x == want => None,
        other => Some(Cex {
            input: format!("eq;{},{};{},{}", a[0], a[1], b[0], b[1]),
            observed: format!("Tensor::from_vec({:?}, v) == Tensor::from_vec({:?}, v) is {:?}", a, b, other),
            expected: format!("{} (tensors are equal only when shape and elements agree)", want),
        }),
    }
}

fn check_idx(d: [usize; 3], i: [usize; 3]) -> Option<Cex> {
    let n = d[0] * d[1] * d[2];
    let v: Vec<usize> = (0..n).collect();
    let r = guarded(|| {
        let t = Tensor::<usize, 3>::from_vec(d, v.clone());
        t[i]
    });
    let valid = i[0] < d[0] && i[1] < d[1] && i[2] < d[2];
    let want = (i[0] * d[1] + i[1]) * d[2] + i[2];
    let ok = match &r {
        Ok(x) => valid && *x == want,
        Err(_) => !valid,
    };
    if ok {
        return None;
    }
    Some(Cex {
        input: format!("idx;{},{},{};{},{},{}", d[0], d[1], d[2], i[0], i[1], i[2]),
        observed: format!("t[{:?}] on shape {:?} gave {:?}", i, d, r),
        expected: if valid { format!("element {}", want) } else { "a panic (index out of range in one dimension)".to_string() },
    })
}

use rlib_io::{Reader, Writer};
use std::io::Cursor;

fn shapes<const D: usize>(max: usize) -> Vec<[usize; D]> {
    let mut out = vec![[1usize; D]];
    loop {
        let mut d = *out.last().unwrap();
        let mut k = D;
        while k > 0 && d[k - 1] == max { d[k - 1] = 1; k -= 1; }
        if k == 0 { break; }
        d[k - 1] += 1;
        out.push(d);
    }
    out
}

/// everything the property says about one shape of rank D (the quantifier: ranks 1..4, extents <= 5, every valid index, every index out of
/// range in exactly one dimension, IO round trip, equality against every other shape with the same number of elements)
fn rank_case<const D: usize>(d: [usize; D], others: &[[usize; D]]) -> Option<(String, String)> {
    let n: usize = d.iter().product();
    let r = guarded(|| {
        let v: Vec<u32> = (0..n as u32).map(|x| x * 7 + 3).collect();
        let t = Tensor::<u32, D>::from_vec(d, v.clone());
        let ts = Tensor::<u32, D>::from_slice(d, &v);
        if !(t == ts) { return Some(("from_vec and from_slice of the same data differ".to_string(), "equal".to_string())); }
        if t.iter().cloned().collect::<Vec<u32>>() != v { return Some(("iter() is not the row-major order of the data".into(), "row-major".into())); }
        if *t.dims() != d || (0..D).any(|k| t.dim(k) != d[k]) { return Some((format!("dims() = {:?}", t.dims()), format!("{:?}", d))); }
        // every valid multi-index, in row-major order, addresses the next element; writing through one index changes exactly that element
        let mut idx = [0usize; D];
        let mut w = Tensor::<u32, D>::new(d, 0u32);
        for off in 0..n {
            if t[idx] != v[off] || t.get_index(idx) != off { return Some((format!("t[{:?}] on shape {:?} = {} (offset {})", idx, d, t[idx], t.get_index(idx)), format!("{} (offset {})", v[off], off))); }
            w[idx] = v[off];
            let mut k = D;
            while k > 0 { if idx[k - 1] + 1 < d[k - 1] { idx[k - 1] += 1; break; } idx[k - 1] = 0; k -= 1; }
        }
        if !(w == t) { return Some((format!("a tensor of shape {:?} filled through IndexMut in row-major order differs from from_vec", d), "equal".into())); }
        // equality: same shape and data; one element changed; same data under every other shape with as many elements
        let mut u = t.clone();
        if !(u == t) || u != t { return Some(("a clone compares unequal".into(), "equal".into())); }
        let last = d.map(|x| x - 1);
        u[last] += 1;
        if u == t { return Some((format!("shape {:?}: tensors differing in the last element compare equal", d), "unequal".into())); }
        for o in others {
            let m: usize = o.iter().product();
            if m == n && *o != d && Tensor::<u32, D>::from_vec(*o, v.clone()) == t {
                return Some((format!("Tensor::from_vec({:?}, v) == Tensor::from_vec({:?}, v)", o, d), "false (tensors are equal only when shape and elements agree)".into()));
            }
        }
        // IO round trip: write, read back with the same shape
        let mut buf: Vec<u8> = Vec::new();
        { let mut wr = Writer::new(Box::new(&mut buf)); wr.write(&t); wr.flush(); }
        let text = String::from_utf8_lossy(&buf).to_string();
        let back = { let mut rd = Reader::new(Box::new(Cursor::new(buf.clone()))); Tensor::<u32, D>::read(d, &mut rd) };
        if !(back == t) || back.iter().cloned().collect::<Vec<u32>>() != v { return Some((format!("shape {:?} written as {:?} reads back as {:?}", d, text, back.iter().cloned().collect::<Vec<u32>>()), format!("{:?}", v))); }
        None
    });
    let r = match r { Ok(x) => x, Err(e) => Some((format!("shape {:?}: {}", d, e), "no panic".into())) };
    if r.is_some() { return r; }
    // an index out of range in exactly one dimension is rejected, also when its flattened offset would still be inside the storage
    let mut idx = [0usize; D];
    loop {
        for k in 0..D {
            for over in [d[k], d[k] + 1] {
                let mut bad = idx; bad[k] = over;
                let t = Tensor::<u32, D>::new(d, 5u32);
                let rd = guarded(|| t[bad]);
                let mut t2 = Tensor::<u32, D>::new(d, 5u32);
                let wr = guarded(move || { t2[bad] = 1; });
                if rd.is_ok() || wr.is_ok() { return Some((format!("index {:?} on shape {:?} is accepted ({})", bad, d, if rd.is_ok() { "read" } else { "write" }), "a panic".into())); }
            }
        }
        let mut k = D;
        while k > 0 { if idx[k - 1] + 1 < d[k - 1] { idx[k - 1] += 1; break; } idx[k - 1] = 0; k -= 1; }
        if k == 0 { break; }
    }
    // zero extents and data of the wrong length are rejected at construction
    for k in 0..D {
        let mut z = d; z[k] = 0;
        if guarded(|| Tensor::<u32, D>::from_vec(z, vec![])).is_ok() || guarded(|| Tensor::<u32, D>::new(z, 0)).is_ok() || guarded(|| Tensor::<u32, D>::from_slice(z, &[])).is_ok() {
            return Some((format!("a tensor with shape {:?} was constructed", z), "a panic (zero extent)".into()));
        }
    }
    for m in [n - 1, n + 1] {
        if guarded(|| Tensor::<u32, D>::from_vec(d, vec![0; m])).is_ok() || guarded(|| Tensor::<u32, D>::from_slice(d, &vec![0; m])).is_ok() {
            return Some((format!("shape {:?} accepted {} elements", d, m), "a panic (length mismatch)".into()));
        }
    }
    None
}
fn rank_all<const D: usize>(max: usize, cases: &mut u64) -> Option<Cex> {
    let all = shapes::<D>(max);
    for d in &all {
        *cases += 1;
        if let Some((o, e)) = rank_case::<D>(*d, &all) {
            return Some(Cex { input: format!("rank;{};{}", D, d.iter().map(|x| x.to_string()).collect::<Vec<_>>().join(",")), observed: o, expected: e });
        }
    }
    None
}
fn rank_replay(dd: usize, d: &[usize]) -> Option<Cex> {
    fn go<const D: usize>(d: &[usize]) -> Option<(String, String)> { let mut a = [1usize; D]; for k in 0..D.min(d.len()) { a[k] = d[k].max(1); } rank_case::<D>(a, &shapes::<D>(5)) }
    let r = match dd { 1 => go::<1>(d), 2 => go::<2>(d), 3 => go::<3>(d), _ => go::<4>(d) };
    r.map(|(o, e)| Cex { input: format!("rank;{};{}", dd, d.iter().map(|x| x.to_string()).collect::<Vec<_>>().join(",")), observed: o, expected: e })
}

pub fn run(_seed: u64, replay: Option<String>) -> Outcome {
    if let Some(r) = &replay {
        if let Some(rest) = r.strip_prefix("rank;") {
            let p: Vec<&str> = rest.split(';').collect();
            return Outcome { cex: rank_replay(p[0].parse().unwrap_or(2), &nums(p.get(1).unwrap_or(&""))), cases: 1 };
        }
    }
    if let Some(r) = replay {
        let r_in = r.clone();
        let p: Vec<&str> = r.split(';').collect();
        let (a, b) = (nums(p.get(1).unwrap_or(&"")), nums(p.get(2).unwrap_or(&"")));
        let c = match p[0] {
            "eq" if a.len() == 2 && b.len() == 2 => check_eq([a[0], a[1]], [b[0], b[1]]),
            "idx" if a.len() == 3 && b.len() == 3 => check_idx([a[0], a[1], a[2]], [b[0], b[1], b[2]]),
            "clone" if a.len() == 2 && b.len() == 2 => {
                let r = guarded(|| { let src = Tensor::<u32, 2>::from_vec([b[0], b[1]], (0..(b[0] * b[1]) as u32).collect()); let mut dst = Tensor::<u32, 2>::from_vec([a[0], a[1]], vec![7u32; a[0] * a[1]]); dst.clone_from(&src); dst == src && *dst.dims() == [b[0], b[1]] });
                if r == Ok(true) { None } else { Some(Cex { input: r_in.clone(), observed: format!("{:?}", r), expected: "equal to the source".into() }) }
            }
            _ => None,
        };
        return Outcome { cex: c, cases: 1 };
    }
    let mut cases = 0;
    // the property's quantifier: ranks 1..4, extents up to 5 (rank 4: up to 4 in the quick tier)
    let thorough = std::env::var("VERIF_TIER").map(|t| t == "thorough").unwrap_or(false);
    if let Some(c) = rank_all::<1>(5, &mut cases).or_else(|| rank_all::<2>(5, &mut cases)).or_else(|| rank_all::<3>(5, &mut cases)).or_else(|| rank_all::<4>(if thorough { 5 } else { 4 }, &mut cases)) {
        return Outcome { cex: Some(c), cases };
    }
    for a0 in 1..=4 {
        for a1 in 1..=4 {
            for b0 in 1..=4 {
                for b1 in 1..=4 {
                    cases += 1;
                    if let Some(c) = check_eq([a0, a1], [b0, b1]) {
                        return Outcome { cex: Some(c), cases };
                    }
                }
            }
        }
    }
    for d0 in 1..=3 {
        for d1 in 1..=3 {
            for d2 in 1..=3 {
                for i0 in 0..=d0 + 1 {
                    for i1 in 0..=d1 + 1 {
                        for i2 in 0..=d2 + 1 {
                            cases += 1;
                            if let Some(c) = check_idx([d0, d1, d2], [i0, i1, i2]) {
                                return Outcome { cex: Some(c), cases };
                            }
                        }
                    }
                }
            }
        }
    }
    // clones: `clone` and `clone_from` give a tensor equal to the source (shape AND elements), also when the destination had another shape
    for a0 in 1..=3usize { for a1 in 1..=3usize { for b0 in 1..=3usize { for b1 in 1..=3usize {
        cases += 1;
        let r = guarded(|| {
            let src = Tensor::<u32, 2>::from_vec([b0, b1], (0..(b0 * b1) as u32).collect());
            let mut dst = Tensor::<u32, 2>::from_vec([a0, a1], vec![7u32; a0 * a1]);
            dst.clone_from(&src);
            let c2 = src.clone();
            let mut ok = dst == src && c2 == src && *dst.dims() == [b0, b1] && *c2.dims() == [b0, b1];
            for i in 0..b0 { for j in 0..b1 { ok &= dst[[i, j]] == (i * b1 + j) as u32 && c2[[i, j]] == (i * b1 + j) as u32; } }
            ok
        });
        if r != Ok(true) {
            return Outcome { cex: Some(Cex { input: format!("clone;{},{};{},{}", a0, a1, b0, b1), observed: format!("a tensor of shape {:?} after clone_from(a tensor of shape {:?}): {:?}", [a0, a1], [b0, b1], r), expected: "equal to the source in shape and elements".into() }), cases };
        }
    } } } }
    // zero extents / length mismatch are rejected at construction
    for (d, n) in [([0usize, 2], 0usize), ([2, 0], 0), ([2, 3], 5), ([2, 3], 7)] {
        cases += 1;
        let r = guarded(|| Tensor::<u8, 2>::from_vec(d, vec![0u8; n]));
        if r.is_ok() {
            return Outcome { cex: Some(Cex { input: format!("ctor;{},{};{}", d[0], d[1], n), observed: "constructed".into(), expected: "panic at construction".into() }), cases };
        }
    }
    Outcome { cex: None, cases }
}
