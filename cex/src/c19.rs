//! C19: tensor indexing is a row-major bijection, out-of-range indices panic, equality needs shape AND elements.
//! input encoding: "eq;d0,d1;e0,e1"  |  "idx;d0,d1,d2;i0,i1,i2"
use crate::{guarded, Cex, Outcome};
use rlib_tensor::Tensor;

fn nums(s: &str) -> Vec<usize> {
    s.split(',').filter(|x| !x.is_empty()).map(|x| x.parse().unwrap_or(0)).collect()
}

fn check_eq(a: [usize; 2], b: [usize; 2]) -> Option<Cex> {
    if a[0] * a[1] != b[0] * b[1] {
        return None;
    }
    let n = a[0] * a[1];
    let v: Vec<u32> = (0..n as u32).collect();
    let r = guarded(|| Tensor::<u32, 2>::from_vec(a, v.clone()) == Tensor::<u32, 2>::from_vec(b, v.clone()));
    let want = a == b;
    match r {
        Ok(x) if x == want => None,
        other => Some(Cex {
            input: format!("eq;{},{};{},{}", a[0], a[1], b[0], b[1]),
            observed: format!("Tensor::from_vec({:?}, v) == Tensor::from_vec({:?}, v) is {:?}", a, b, other),
            expected: format!("{} (tensors are equal only when shape and elements agree)", want),
        }),
    }
}

fn check_idx(d: [usize; 3], i: [usize; 3]) -> Option<Cex> {
    let n = d[0] * d[1] * d[2];
    let v: Vec<usize> = (0..n).collect();
    let r = guarded(|| {
        let t = Tensor::<usize, 3>::from_vec(d, v.clone());
        t[i]
    });
    let valid = i[0] < d[0] && i[1] < d[1] && i[2] < d[2];
    let want = (i[0] * d[1] + i[1]) * d[2] + i[2];
    let ok = match &r {
        Ok(x) => valid && *x == want,
        Err(_) => !valid,
    };
    if ok {
        return None;
    }
    Some(Cex {
        input: format!("idx;{},{},{};{},{},{}", d[0], d[1], d[2], i[0], i[1], i[2]),
        observed: format!("t[{:?}] on shape {:?} gave {:?}", i, d, r),
        expected: if valid { format!("element {}", want) } else { "a panic (index out of range in one dimension)".to_string() },
    })
}

pub fn run(_seed: u64, replay: Option<String>) -> Outcome {
    if let Some(r) = replay {
        let r_in = r.clone();
        let p: Vec<&str> = r.split(';').collect();
        let (a, b) = (nums(p.get(1).unwrap_or(&"")), nums(p.get(2).unwrap_or(&"")));
        let c = match p[0] {
            "eq" if a.len() == 2 && b.len() == 2 => check_eq([a[0], a[1]], [b[0], b[1]]),
            "idx" if a.len() == 3 && b.len() == 3 => check_idx([a[0], a[1], a[2]], [b[0], b[1], b[2]]),
            "clone" if a.len() == 2 && b.len() == 2 => {
                let r = guarded(|| { let src = Tensor::<u32, 2>::from_vec([b[0], b[1]], (0..(b[0] * b[1]) as u32).collect()); let mut dst = Tensor::<u32, 2>::from_vec([a[0], a[1]], vec![7u32; a[0] * a[1]]); dst.clone_from(&src); dst == src && *dst.dims() == [b[0], b[1]] });
                if r == Ok(true) { None } else { Some(Cex { input: r_in.clone(), observed: format!("{:?}", r), expected: "equal to the source".into() }) }
            }
            _ => None,
        };
        return Outcome { cex: c, cases: 1 };
    }
    let mut cases = 0;
    for a0 in 1..=4 {
        for a1 in 1..=4 {
            for b0 in 1..=4 {
                for b1 in 1..=4 {
                    cases += 1;
                    if let Some(c) = check_eq([a0, a1], [b0, b1]) {
                        return Outcome { cex: Some(c), cases };
                    }
                }
            }
        }
    }
    for d0 in 1..=3 {
        for d1 in 1..=3 {
            for d2 in 1..=3 {
                for i0 in 0..=d0 + 1 {
                    for i1 in 0..=d1 + 1 {
                        for i2 in 0..=d2 + 1 {
                            cases += 1;
                            if let Some(c) = check_idx([d0, d1, d2], [i0, i1, i2]) {
                                return Outcome { cex: Some(c), cases };
                            }
                        }
                    }
                }
            }
        }
    }
    // clones: `clone` and `clone_from` give a tensor equal to the source (shape AND elements), also when the destination had another shape
    for a0 in 1..=3usize { for a1 in 1..=3usize { for b0 in 1..=3usize { for b1 in 1..=3usize {
        cases += 1;
        let r = guarded(|| {
            let src = Tensor::<u32, 2>::from_vec([b0, b1], (0..(b0 * b1) as u32).collect());
            let mut dst = Tensor::<u32, 2>::from_vec([a0, a1], vec![7u32; a0 * a1]);
            dst.clone_from(&src);
            let c2 = src.clone();
            let mut ok = dst == src && c2 == src && *dst.dims() == [b0, b1] && *c2.dims() == [b0, b1];
            for i in 0..b0 { for j in 0..b1 { ok &= dst[[i, j]] == (i * b1 + j) as u32 && c2[[i, j]] == (i * b1 + j) as u32; } }
            ok
        });
        if r != Ok(true) {
            return Outcome { cex: Some(Cex { input: format!("clone;{},{};{},{}", a0, a1, b0, b1), observed: format!("a tensor of shape {:?} after clone_from(a tensor of shape {:?}): {:?}", [a0, a1], [b0, b1], r), expected: "equal to the source in shape and elements".into() }), cases };
        }
    } } } }
    // zero extents / length mismatch are rejected at construction
    for (d, n) in [([0usize, 2], 0usize), ([2, 0], 0), ([2, 3], 5), ([2, 3], 7)] {
        cases += 1;
        let r = guarded(|| Tensor::<u8, 2>::from_vec(d, vec![0u8; n]));
        if r.is_ok() {
            return Outcome { cex: Some(Cex { input: format!("ctor;{},{};{}", d[0], d[1], n), observed: "constructed".into(), expected: "panic at construction".into() }), cases };
        }
    }
    Outcome { cex: None, cases }
}
