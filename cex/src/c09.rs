//! C09: Writer delivers exactly the renderings, in order; sinks that accept partially / report Interrupted.
//! input encoding: "<fill>;<v1>,<v2>,...;<sink max chunk>"  (fill = number of 'x' bytes written first)
use crate::{guarded, Cex, Outcome};
use rlib_io::{Reader, Writer};
use std::cell::RefCell;
use std::io::{Error, ErrorKind, Write};
use std::rc::Rc;

struct Sink { out: Rc<RefCell<Vec<u8>>>, max: usize, k: usize }
impl Write for Sink {
    fn write(&mut self, buf: &[u8]) -> std::io::Result<usize> {
        self.k += 1;
        if self.max > 0 && self.k % 3 == 0 { return Err(Error::new(ErrorKind::Interrupted, "interrupted")); }
        let n = if self.max == 0 { buf.len() } else { buf.len().min(self.max) };
        self.out.borrow_mut().extend_from_slice(&buf[..n]);
        Ok(n)
    }
    fn flush(&mut self) -> std::io::Result<()> { Ok(()) }
}

fn check(fill: usize, vals: &[i128], max: usize, use_drop: bool, big: usize) -> Option<Cex> {
    let out = Rc::new(RefCell::new(Vec::new()));
    let o2 = out.clone();
    let vals2 = vals.to_vec();
    let r = guarded(move || {
        let mut w = Writer::new(Box::new(Sink { out: o2, max, k: 0 }));
        let filler = "x".repeat(fill);
        w.write(&filler.as_str());
        let mut want = filler.into_bytes();
        for (i, v) in vals2.iter().enumerate() {
            match i % 7 {
                0 => { w.write(&(*v as i64)); want.extend_from_slice((*v as i64).to_string().as_bytes()); }
                1 => { w.write(&(*v as u64)); want.extend_from_slice((*v as u64).to_string().as_bytes()); }
                2 => { w.write(&(*v as i8)); want.extend_from_slice((*v as i8).to_string().as_bytes()); }
                3 => { w.write(v); want.extend_from_slice(v.to_string().as_bytes()); }
                4 => { w.write(&(*v as u128)); want.extend_from_slice((*v as u128).to_string().as_bytes()); }
                5 => { let t = vec![*v as i32, (*v >> 3) as i32, -7]; w.write(&t); want.extend_from_slice(format!("{} {} {}", t[0], t[1], t[2]).as_bytes()); }
                _ => { let t = (*v as i16, *v as u8, String::from("ab")); w.write(&t); want.extend_from_slice(format!("{} {} ab", t.0, t.1).as_bytes()); }
            }
            w.write_char(' ');
            want.push(b' ');
        }
        if big > 0 {
            // a piece larger than the internal buffer, written while earlier output is still pending
            let piece: String = (0..big).map(|i| (b'a' + (i % 26) as u8) as char).collect();
            w.write(&piece);
            want.extend_from_slice(piece.as_bytes());
            w.write(&-5i32);
            want.extend_from_slice(b"-5");
            let piece2 = piece.clone();
            w.write(&piece2.as_str());
            want.extend_from_slice(piece2.as_bytes());
        }
        if use_drop { drop(w); } else { w.flush(); }
        want
    });
    let got = out.borrow().clone();
    let inp = format!("{};{};{};{};{}", fill, vals.iter().map(|v| v.to_string()).collect::<Vec<_>>().join(","), max, use_drop as u8, big);
    match r {
        Err(e) => Some(Cex { input: inp, observed: e, expected: "no panic".into() }),
        Ok(want) => {
            if got != want {
                let k = got.iter().zip(want.iter()).position(|(a, b)| a != b).unwrap_or(got.len().min(want.len()));
                return Some(Cex { input: inp, observed: format!("sink received {} bytes; first difference at byte {}: ..{:?}", got.len(), k, String::from_utf8_lossy(&got[k.saturating_sub(8)..(k + 24).min(got.len())])),
                    expected: format!("{} bytes: ..{:?}", want.len(), String::from_utf8_lossy(&want[k.saturating_sub(8)..(k + 24).min(want.len())])) });
            }
            // round trip through the Reader
            if big > 0 { return None; }
            let tail = want[fill..].to_vec();
            let vals3 = vals.to_vec();
            let rt = guarded(move || { let mut r = Reader::new(Box::new(std::io::Cursor::new(tail))); let mut bad = None;
                for (i, v) in vals3.iter().enumerate() { match i % 7 { 0 => { if r.read::<i64>() != *v as i64 { bad = Some(i); } } 1 => { if r.read::<u64>() != *v as u64 { bad = Some(i); } } 2 => { if r.read::<i8>() != *v as i8 { bad = Some(i); } }
                    3 => { if r.read::<i128>() != *v { bad = Some(i); } } 4 => { if r.read::<u128>() != *v as u128 { bad = Some(i); } } 5 => { let t: Vec<i32> = r.read_vec(3); if t != vec![*v as i32, (*v >> 3) as i32, -7] { bad = Some(i); } }
                    _ => { let t: (i16, u8, String) = r.read(); if t != (*v as i16, *v as u8, String::from("ab")) { bad = Some(i); } } } }
                bad });
            match rt { Ok(None) => None, other => Some(Cex { input: inp, observed: format!("reading the text back: {:?}", other), expected: "the original values".into() }) }
        }
    }
}


/// one compound value (tuple of arity 2..8, vector of a given length, nested forms) written as the first piece after `fill` bytes:
/// every alignment of every separator and component against the buffer boundary; the text is read back through the Reader
fn check_compound(kind: usize, fill: usize, max: usize, use_drop: bool) -> Option<Cex> {
    let out = Rc::new(RefCell::new(Vec::new()));
    let o2 = out.clone();
    let vec_lens = [0usize, 1, 2, 3, 31, 32, 33, 63, 64, 65, 100, 257];
    let r = guarded(move || {
        let mut w = Writer::new(Box::new(Sink { out: o2, max, k: 0 }));
        let filler = "x".repeat(fill);
        w.write(&filler.as_str());
        w.write_char('\n');
        let text: String = match kind {
            0 => { let t = (1u8, -22i32); w.write(&t); format!("{} {}", t.0, t.1) }
            1 => { let t = (1u8, 22i32, -3i64); w.write(&t); format!("{} {} {}", t.0, t.1, t.2) }
            2 => { let t = (-1i8, 22u16, -3i64, 4usize); w.write(&t); format!("{} {} {} {}", t.0, t.1, t.2, t.3) }
            3 => { let t = (1u8, 22i32, -3i64, 4u16, -5i128); w.write(&t); format!("{} {} {} {} {}", t.0, t.1, t.2, t.3, t.4) }
            4 => { let t = (1u8, 22i32, -3i64, 4u16, -5i128, 666666u32); w.write(&t); format!("{} {} {} {} {} {}", t.0, t.1, t.2, t.3, t.4, t.5) }
            5 => { let t = (1u8, String::from("ab"), -3i64, 4u16, -5i128, 6u64, -7777isize); w.write(&t); format!("{} {} {} {} {} {} {}", t.0, t.1, t.2, t.3, t.4, t.5, t.6) }
            6 => { let t = (1u8, 22i32, -3i64, 4u16, -5i128, 6u64, -7isize, 88888888u128); w.write(&t); format!("{} {} {} {} {} {} {} {}", t.0, t.1, t.2, t.3, t.4, t.5, t.6, t.7) }
            7 => { let t = ((1u8, 2u8), vec![3i32, -4, 5], 6u8); w.write(&t); String::from("1 2 3 -4 5 6") }
            k => {
                let n = vec_lens[(k - 8) % vec_lens.len()];
                if k - 8 < vec_lens.len() {
                    let v: Vec<i64> = (0..n as i64).map(|i| if i % 3 == 0 { -i * 1001 } else { i }).collect();
                    w.write(&v);
                    v.iter().map(|x| x.to_string()).collect::<Vec<_>>().join(" ")
                } else {
                    let v: Vec<(u8, i16)> = (0..n).map(|i| ((i % 200) as u8, -(i as i16))).collect();
                    w.write(&v);
                    v.iter().map(|x| format!("{} {}", x.0, x.1)).collect::<Vec<_>>().join(" ")
                }
            }
        };
        if use_drop { drop(w); } else { w.flush(); }
        let mut want = filler.into_bytes();
        want.push(b'\n');
        want.extend_from_slice(text.as_bytes());
        want
    });
    let got = out.borrow().clone();
    let inp = format!("compound:{};{};{};{}", kind, fill, max, use_drop as u8);
    match r {
        Err(e) => Some(Cex { input: inp, observed: e, expected: "no panic".into() }),
        Ok(want) => {
            if got != want {
                let k = got.iter().zip(want.iter()).position(|(a, b)| a != b).unwrap_or(got.len().min(want.len()));
                return Some(Cex { input: inp, observed: format!("sink received {} bytes; first difference at byte {}: ..{:?}", got.len(), k, String::from_utf8_lossy(&got[k.saturating_sub(8)..(k + 24).min(got.len())])),
                    expected: format!("{} bytes: ..{:?}", want.len(), String::from_utf8_lossy(&want[k.saturating_sub(8)..(k + 24).min(want.len())])) });
            }
            // round trip: the same compound type read back from the produced text
            let tail = want[fill + 1..].to_vec();
            let rt = guarded(move || { let mut r = Reader::new(Box::new(std::io::Cursor::new(tail)));
                let same = match kind {
                    0 => r.read::<(u8, i32)>() == (1, -22),
                    1 => r.read::<(u8, i32, i64)>() == (1, 22, -3),
                    2 => r.read::<(i8, u16, i64, usize)>() == (-1, 22, -3, 4),
                    3 => r.read::<(u8, i32, i64, u16, i128)>() == (1, 22, -3, 4, -5),
                    4 => r.read::<(u8, i32, i64, u16, i128, u32)>() == (1, 22, -3, 4, -5, 666666),
                    5 => r.read::<(u8, String, i64, u16, i128, u64, isize)>() == (1, String::from("ab"), -3, 4, -5, 6, -7777),
                    6 => r.read::<(u8, i32, i64, u16, i128, u64, isize, u128)>() == (1, 22, -3, 4, -5, 6, -7, 88888888),
                    7 => { let a: (u8, u8) = r.read(); let b: Vec<i32> = r.read_vec(3); let c: u8 = r.read(); a == (1, 2) && b == vec![3, -4, 5] && c == 6 }
                    k => {
                        let n = vec_lens[(k - 8) % vec_lens.len()];
                        if k - 8 < vec_lens.len() { r.read_vec::<i64>(n) == (0..n as i64).map(|i| if i % 3 == 0 { -i * 1001 } else { i }).collect::<Vec<_>>() }
                        else { r.read_vec::<(u8, i16)>(n) == (0..n).map(|i| ((i % 200) as u8, -(i as i16))).collect::<Vec<_>>() }
                    }
                };
                same && r.is_eof() });
            match rt { Ok(true) => None, other => Some(Cex { input: inp, observed: format!("reading the text back: {:?}", other), expected: "the original value, then end of input".into() }) }
        }
    }
}
pub const N_COMPOUND: usize = 8 + 2 * 12;

/// histories over {W = write a value, F = flush, C = write_char} ended by a drop: the sink must hold exactly the renderings in order
fn check_script(script: &str, max: usize) -> Option<Cex> {
    let out = Rc::new(RefCell::new(Vec::new()));
    let o2 = out.clone();
    let sc = script.to_string();
    let r = guarded(move || {
        let mut w = Writer::new(Box::new(Sink { out: o2, max, k: 0 }));
        let mut want: Vec<u8> = Vec::new();
        let mut k = 0i64;
        for op in sc.chars() {
            match op {
                'W' => { k += 1; let v = k * 1234567 - 5; w.write(&v); want.extend_from_slice(v.to_string().as_bytes()); }
                'S' => { w.write(&"hello"); want.extend_from_slice(b"hello"); }
                'C' => { w.write_char('\n'); want.push(b'\n'); }
                'F' => { w.flush(); }
                _ => {}
            }
        }
        drop(w);
        want
    });
    let got = out.borrow().clone();
    match r {
        Err(e) => Some(Cex { input: format!("script:{};{}", script, max), observed: e, expected: "no panic".into() }),
        Ok(want) if want != got => Some(Cex { input: format!("script:{};{}", script, max),
            observed: format!("history {} then drop: sink received {:?}", script, String::from_utf8_lossy(&got)), expected: format!("{:?}", String::from_utf8_lossy(&want)) }),
        _ => None,
    }
}

pub fn run(_seed: u64, replay: Option<String>) -> Outcome {
    if let Some(r) = replay {
        if let Some(rest) = r.strip_prefix("script:") {
            let p: Vec<&str> = rest.split(';').collect();
            return Outcome { cex: check_script(p[0], p.get(1).and_then(|x| x.parse().ok()).unwrap_or(0)), cases: 1 };
        }
        if let Some(rest) = r.strip_prefix("compound:") {
            let p: Vec<usize> = rest.split(';').map(|x| x.parse().unwrap_or(0)).collect();
            if p.len() != 4 { return Outcome { cex: None, cases: 0 }; }
            return Outcome { cex: check_compound(p[0], p[1], p[2], p[3] == 1), cases: 1 };
        }
        let p: Vec<&str> = r.split(';').collect();
        let vals: Vec<i128> = p[1].split(',').filter(|x| !x.is_empty()).map(|x| x.parse().unwrap_or(0)).collect();
        return Outcome { cex: check(p[0].parse().unwrap_or(0), &vals, p[2].parse().unwrap_or(0), p.get(3) == Some(&"1"), p.get(4).and_then(|x| x.parse().ok()).unwrap_or(0)), cases: 1 };
    }
    let mut cases = 0;
    // every history of length <= 5 over {W, S, C, F} (incl. flushes of an empty buffer, repeated flushes, trailing chars), then drop
    let alpha = ['W', 'S', 'C', 'F'];
    for len in 0..=5usize {
        for code in 0..alpha.len().pow(len as u32) {
            let mut c = code; let mut sc = String::new();
            for _ in 0..len { sc.push(alpha[c % 4]); c /= 4; }
            for max in [0usize, 3] {
                cases += 1;
                if let Some(c) = check_script(&sc, max) { return Outcome { cex: Some(c), cases }; }
            }
        }
    }
    let vals: Vec<i128> = vec![0, -1, i64::MIN as i128, u64::MAX as i128, -128, i128::MIN, i128::MAX, 7, 1000000007, -9, 10, 99, 100, -100, i64::MAX as i128, 255, 65535, -32768, 42, 1, 9];
    for fill in (65536 - 60..=65536).chain([0, 1, 65535 - 200]) {
        for max in [0usize, 1, 7] { for use_drop in [false, true] {
            if max == 1 && fill % 5 != 0 { continue; }
            cases += 1;
            if let Some(c) = check(fill, &vals, max, use_drop, 0) { return Outcome { cex: Some(c), cases }; }
        } }
    }
    // compound values (tuples of arity 2..8, vectors of 0..257 elements, nested forms) at every alignment against the buffer boundary
    for kind in 0..N_COMPOUND {
        for fill in (65536 - 64..=65536).chain([0, 1, 65536 - 700, 65536 - 1500]) {
            for (max, use_drop) in [(0usize, false), (7, true)] {
                if max == 7 && fill % 4 != 0 { continue; }
                cases += 1;
                if let Some(c) = check_compound(kind, fill, max, use_drop) { return Outcome { cex: Some(c), cases }; }
            }
        }
    }
    // values whose decimal expansion has inner / trailing zeros, for every width (rendered and read back)
    let mut tens: Vec<i128> = Vec::new();
    let mut p: i128 = 1;
    for k in 0..=38 { for d in [1i128, 2, 9] { for off in [-1i128, 0, 1, 7] { if let Some(v) = p.checked_mul(d).and_then(|x| x.checked_add(off)) { tens.push(v); tens.push(-v); } } } if k < 38 { p *= 10; } }
    for chunk in tens.chunks(21) {
        cases += 1;
        if let Some(c) = check(3, chunk, 0, false, 0) { return Outcome { cex: Some(c), cases }; }
    }
    for fill in [0usize, 10, 65530] { for big in [65537usize, 70000, 131073] { for max in [0usize, 4096] {
        cases += 1;
        if let Some(c) = check(fill, &vals[..5], max, big % 2 == 0, big) { return Outcome { cex: Some(c), cases }; }
    } } }
    Outcome { cex: None, cases }
}
