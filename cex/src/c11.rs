//! C11: gcd / lcm / egcd / crt against brute force. input encoding: "<fn>;a;b;c;d"
use crate::{guarded, Cex, Outcome};
use rlib_gcd::*;

fn g(a: i64, b: i64) -> i64 { let (mut a, mut b) = (a.abs(), b.abs()); while b != 0 { let t = a % b; a = b; b = t; } a }

fn check(f: &str, a: i64, b: i64, c: i64, d: i64) -> Option<Cex> {
    let mk = |o: String, e: String| Some(Cex { input: format!("{};{};{};{};{}", f, a, b, c, d), observed: o, expected: e });
    match f {
        "gcd" => { let r = guarded(|| gcd(a, b)); if r != Ok(g(a, b)) { return mk(format!("gcd({},{}) = {:?}", a, b, r), format!("{}", g(a, b))); }
            let r = guarded(|| gcd(a.unsigned_abs(), b.unsigned_abs())); if r != Ok(g(a, b) as u64) { return mk(format!("gcd::<u64>({},{}) = {:?}", a.abs(), b.abs(), r), format!("{}", g(a, b))); } }
        "lcm" => { if a == 0 && b == 0 { return None; } let w = (a / g(a, b) * b).abs(); let r = guarded(|| lcm(a, b)); if r != Ok(w) { return mk(format!("lcm({},{}) = {:?}", a, b, r), format!("{}", w)); } }
        "egcd" => { if a == 0 && b == 0 { return None; } let solv = c % g(a, b) == 0; let r = guarded(|| egcd(a, b, c));
            match r { Ok(Some((x, y))) if solv && a as i128 * x as i128 + b as i128 * y as i128 == c as i128 => {}, Ok(None) if !solv => {},
                other => return mk(format!("egcd({},{},{}) = {:?}", a, b, c, other), if solv { "Some((x,y)) with a*x+b*y==c".into() } else { "None".into() }) } }
        "crt" => { let (a1, m1, a2, m2) = (a, b, c, d); let l = m1 / g(m1, m2) * m2; let want = (0..l).find(|x| x % m1 == a1 && x % m2 == a2);
            let r = guarded(|| crt(a1, m1, a2, m2)); if r != Ok(want) { return mk(format!("crt({},{},{},{}) = {:?}", a1, m1, a2, m2, r), format!("{:?}", want)); } }
        _ => {}
    }
    None
}

pub fn run(_seed: u64, replay: Option<String>) -> Outcome {
    if let Some(r) = replay {
        let p: Vec<&str> = r.split(';').collect();
        let n: Vec<i64> = p[1..].iter().map(|x| x.parse().unwrap_or(0)).collect();
        return Outcome { cex: check(p[0], n[0], n[1], n[2], n[3]), cases: 1 };
    }
    let mut cases = 0;
    let big = [1i64 << 20, (1 << 20) - 1, -(1 << 20), 999983, -999983, 720720];
    for a in -12..=12i64 { for b in -12..=12i64 {
        for f in ["gcd", "lcm"] { cases += 1; if let Some(c) = check(f, a, b, 0, 0) { return Outcome { cex: Some(c), cases }; } }
        for c in -12..=12i64 { cases += 1; if let Some(x) = check("egcd", a, b, c, 0) { return Outcome { cex: Some(x), cases }; } }
    } }
    for &a in &big { for &b in &big { for f in ["gcd", "lcm"] { cases += 1; if let Some(c) = check(f, a, b, 0, 0) { return Outcome { cex: Some(c), cases }; } }
        for &c in &[0i64, 1, -1, 1 << 20, -(1 << 20), 360360] { cases += 1; if let Some(x) = check("egcd", a, b, c, 0) { return Outcome { cex: Some(x), cases }; } } } }
    for m1 in 1..=12i64 { for m2 in 1..=12i64 { for a1 in 0..m1 { for a2 in 0..m2 {
        cases += 1; if let Some(c) = check("crt", a1, m1, a2, m2) { return Outcome { cex: Some(c), cases }; } } } } }
    Outcome { cex: None, cases }
}
