//! C11: gcd / lcm / egcd / crt against brute force. input encoding: "<fn>;a;b;c;d"
use crate::{guarded, Cex, Outcome};
use rlib_gcd::*;

fn g(a: i64, b: i64) -> i64 { let (mut a, mut b) = (a.abs(), b.abs()); while b != 0 { let t = a % b; a = b; b = t; } a }

fn check(f: &str, a: i64, b: i64, c: i64, d: i64) -> Option<Cex> {
    let mk = |o: String, e: String| Some(Cex { input: format!("{};{};{};{};{}", f, a, b, c, d), observed: o, expected: e });
    match f {
        "gcd" => { let r = guarded(|| gcd(a, b)); if r != Ok(g(a, b)) { return mk(format!("gcd({},{}) = {:?}", a, b, r), format!("{}", g(a, b))); }
            let r = guarded(|| gcd(a.unsigned_abs(), b.unsigned_abs())); if r != Ok(g(a, b) as u64) { return mk(format!("gcd::<u64>({},{}) = {:?}", a.abs(), b.abs(), r), format!("{}", g(a, b))); } }
        "lcm" => { if a == 0 && b == 0 { return None; } let w = (a / g(a, b) * b).abs(); let r = guarded(|| lcm(a, b)); if r != Ok(w) { return mk(format!("lcm({},{}) = {:?}", a, b, r), format!("{}", w)); } }
        "egcd" => { if a == 0 && b == 0 { return None; } let solv = c % g(a, b) == 0; let r = guarded(|| egcd(a, b, c));
            match r { Ok(Some((x, y))) if solv && a as i128 * x as i128 + b as i128 * y as i128 == c as i128 => {}, Ok(None) if !solv => {},
                other => return mk(format!("egcd({},{},{}) = {:?}", a, b, c, other), if solv { "Some((x,y)) with a*x+b*y==c".into() } else { "None".into() }) } }
        "crt" => { let (a1, m1, a2, m2) = (a, b, c, d); let l = m1 / g(m1, m2) * m2; let want = (0..l).find(|x| x % m1 == a1 && x % m2 == a2);
            let r = guarded(|| crt(a1, m1, a2, m2)); if r != Ok(want) { return mk(format!("crt({},{},{},{}) = {:?}", a1, m1, a2, m2, r), format!("{:?}", want)); } }
        _ => {}
    }
    None
}

fn g128(a: i128, b: i128) -> i128 { let (mut a, mut b) = (a.abs(), b.abs()); while b != 0 { let t = a % b; a = b; b = t; } a }

/// gcd / lcm for one integer type: operands are given as i128 and must be representable; lcm only when the mathematical value fits
macro_rules! width {
    ($name:ident, $t:ty, $tn:expr) => {
        fn $name(a: i128, b: i128) -> Option<Cex> {
            if a < <$t>::MIN as i128 || a > <$t>::MAX as i128 || b < <$t>::MIN as i128 || b > <$t>::MAX as i128 { return None; }
            #[allow(unused_comparisons)]
            if (<$t>::MIN as i128) < 0 && (a == <$t>::MIN as i128 || b == <$t>::MIN as i128) { return None; }
            let gg = g128(a, b);
            let mk = |o: String, e: String| Some(Cex { input: format!("w;{};{};{}", $tn, a, b), observed: o, expected: e });
            let r = guarded(|| gcd(a as $t, b as $t) as i128);
            if r != Ok(gg) { return mk(format!("gcd::<{}>({}, {}) = {:?}", $tn, a, b, r), format!("{}", gg)); }
            if gg != 0 {
                let l = (a / gg).checked_mul(b).map(|x| x.abs()).unwrap_or(i128::MAX);
                if l <= <$t>::MAX as i128 && a.abs().checked_mul(b.abs()).map(|x| x <= <$t>::MAX as i128).unwrap_or(false) {
                    let r = guarded(|| lcm(a as $t, b as $t) as i128);
                    if r != Ok(l) { return mk(format!("lcm::<{}>({}, {}) = {:?}", $tn, a, b, r), format!("{}", l)); }
                }
            }
            None
        }
    };
}
width!(w_i8, i8, "i8"); width!(w_u8, u8, "u8"); width!(w_i16, i16, "i16"); width!(w_u16, u16, "u16"); width!(w_i32, i32, "i32"); width!(w_u32, u32, "u32");
width!(w_i64, i64, "i64"); width!(w_u64, u64, "u64"); width!(w_i128, i128, "i128"); width!(w_isize, isize, "isize"); width!(w_usize, usize, "usize");
fn width_dispatch(t: &str, a: i128, b: i128) -> Option<Cex> {
    match t { "i8" => w_i8(a, b), "u8" => w_u8(a, b), "i16" => w_i16(a, b), "u16" => w_u16(a, b), "i32" => w_i32(a, b), "u32" => w_u32(a, b), "i64" => w_i64(a, b),
        "u64" => w_u64(a, b), "i128" => w_i128(a, b), "isize" => w_isize(a, b), _ => w_usize(a, b) }
}
/// egcd / crt in the other signed widths (i32, i128): same answers as in i64 for operands that fit
fn other_widths(a: i64, b: i64, c: i64) -> Option<Cex> {
    if a == 0 && b == 0 { return None; }
    let solv = c % g(a, b) == 0;
    let r32 = guarded(|| egcd(a as i32, b as i32, c as i32));
    let ok32 = match &r32 { Ok(Some((x, y))) => solv && a as i128 * *x as i128 + b as i128 * *y as i128 == c as i128, Ok(None) => !solv, _ => false };
    let r128 = guarded(|| egcd(a as i128, b as i128, c as i128));
    let ok128 = match &r128 { Ok(Some((x, y))) => solv && a as i128 * *x + b as i128 * *y == c as i128, Ok(None) => !solv, _ => false };
    if ok32 && ok128 { return None; }
    Some(Cex { input: format!("ow;{};{};{};0", a, b, c), observed: format!("egcd::<i32>({},{},{}) = {:?}, egcd::<i128> = {:?}", a, b, c, r32, r128), expected: if solv { "Some((x,y)) with a*x+b*y==c".into() } else { "None".into() } })
}

pub fn run(_seed: u64, replay: Option<String>) -> Outcome {
    if let Some(r) = &replay {
        let p: Vec<&str> = r.split(';').collect();
        if p[0] == "w" { return Outcome { cex: width_dispatch(p[1], p[2].parse().unwrap_or(0), p[3].parse().unwrap_or(0)), cases: 1 }; }
        if p[0] == "ow" { return Outcome { cex: other_widths(p[1].parse().unwrap_or(0), p[2].parse().unwrap_or(0), p[3].parse().unwrap_or(0)), cases: 1 }; }
    }
    if let Some(r) = replay {
        let p: Vec<&str> = r.split(';').collect();
        let n: Vec<i64> = p[1..].iter().map(|x| x.parse().unwrap_or(0)).collect();
        return Outcome { cex: check(p[0], n[0], n[1], n[2], n[3]), cases: 1 };
    }
    let mut cases = 0;
    let big = [1i64 << 20, (1 << 20) - 1, -(1 << 20), 999983, -999983, 720720];
    for a in -12..=12i64 { for b in -12..=12i64 {
        for f in ["gcd", "lcm"] { cases += 1; if let Some(c) = check(f, a, b, 0, 0) { return Outcome { cex: Some(c), cases }; } }
        for c in -12..=12i64 { cases += 1; if let Some(x) = check("egcd", a, b, c, 0) { return Outcome { cex: Some(x), cases }; } }
    } }
    for &a in &big { for &b in &big { for f in ["gcd", "lcm"] { cases += 1; if let Some(c) = check(f, a, b, 0, 0) { return Outcome { cex: Some(c), cases }; } }
        for &c in &[0i64, 1, -1, 1 << 20, -(1 << 20), 360360] { cases += 1; if let Some(x) = check("egcd", a, b, c, 0) { return Outcome { cex: Some(x), cases }; } } } }
    // every integer width and signedness: small operands, operands around half and the top of the type's range, powers of two
    for (t, bits, signed) in [("i8", 8u32, true), ("u8", 8, false), ("i16", 16, true), ("u16", 16, false), ("i32", 32, true), ("u32", 32, false), ("i64", 64, true), ("u64", 64, false),
                              ("i128", 127, true), ("isize", 64, true), ("usize", 64, false)] {
        let top: i128 = if signed { (1i128 << (bits.min(127) - 1)) - 1 } else { (1i128 << bits) - 1 };
        let half = top / 2 + 1;
        let mut vals: Vec<i128> = vec![0, 1, 2, 3, 4, 6, 12, 100, 200, 128, 255, 20000, 40000, 1 << 20, (1 << 20) - 1, half, half + 1, half - 1, half / 3 * 2, top, top - 1, top - 2, top / 3, top / 5 * 4];
        if signed { let neg: Vec<i128> = vals.iter().map(|x| -x).collect(); vals.extend(neg); }
        for &a in &vals { for &b in &vals { cases += 1; if let Some(c) = width_dispatch(t, a, b) { return Outcome { cex: Some(c), cases }; } } }
    }
    for a in -9..=9i64 { for b in -9..=9i64 { for c in -9..=9i64 { cases += 1; if let Some(x) = other_widths(a, b, c) { return Outcome { cex: Some(x), cases }; } } } }
    for &a in &[1i64 << 14, -(1 << 14), 9973, 720] { for &b in &[1i64 << 14, 16381, -360, 12] { for &c in &[0i64, 1, 4, -12, 1 << 14] { cases += 1; if let Some(x) = other_widths(a, b, c) { return Outcome { cex: Some(x), cases }; } } } }
    // larger, mostly non-coprime moduli
    for &m1 in &[12i64, 30, 64, 360, 1000, 1 << 10, 999983, 1 << 20] { for &m2 in &[18i64, 45, 96, 1000, 729, 1 << 12, 999979, (1 << 20) - 2] {
        for &a1 in &[0i64, 1, 5, 11, m1 - 1, m1 / 2] { for &a2 in &[0i64, 1, 7, 17, m2 - 1, m2 / 3] {
            if a1 >= m1 || a2 >= m2 || a1 < 0 || a2 < 0 { continue; }
            cases += 1;
            let gg = g(m1, m2);
            let l = m1 / gg * m2;
            let r = guarded(|| crt(a1, m1, a2, m2));
            let ok = match &r { Ok(Some(x)) => (a2 - a1) % gg == 0 && *x >= 0 && *x < l && x % m1 == a1 && x % m2 == a2, Ok(None) => (a2 - a1) % gg != 0, _ => false };
            if !ok { return Outcome { cex: Some(Cex { input: format!("crt;{};{};{};{}", a1, m1, a2, m2), observed: format!("crt({},{},{},{}) = {:?}", a1, m1, a2, m2, r), expected: if (a2 - a1) % gg == 0 { "the solution in [0, lcm)".into() } else { "None".into() } }), cases }; }
        } }
    } }
    for m1 in 1..=12i64 { for m2 in 1..=12i64 { for a1 in 0..m1 { for a2 in 0..m2 {
        cases += 1; if let Some(c) = check("crt", a1, m1, a2, m2) { return Outcome { cex: Some(c), cases }; } } } } }
    Outcome { cex: None, cases }
}
