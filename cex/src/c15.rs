//! C15: combinatorial iterators against brute force. input encoding: "sub8;<x>" "sup8;<x>" "subi8;<x>" "perm;<digits>" "nb;n,m,i,j"
use crate::{guarded, Cex, Outcome};
use rlib_iter::*;

fn check(kind: &str, arg: &str) -> Option<Cex> {
    let mk = |o: String, e: String| Some(Cex { input: format!("{};{}", kind, arg), observed: o, expected: e });
    match kind {
        "sub8" | "sup8" => { let x: u8 = arg.parse().unwrap_or(0);
            let got = guarded(|| if kind == "sub8" { iter_submasks(x).collect::<Vec<u8>>() } else { iter_supermasks(x).collect::<Vec<u8>>() });
            let mut want: Vec<u8> = (0..=255u8).filter(|y| if kind == "sub8" { y & x == *y } else { y & x == x }).collect();
            if kind == "sub8" { want.reverse(); }
            if got != Ok(want.clone()) { return mk(format!("{}({}) = {:?}", kind, x, got), format!("{:?}", want)); } }
        "subi8" | "supi8" => { let x: i8 = arg.parse().unwrap_or(0);
            let got = guarded(|| if kind == "subi8" { iter_submasks(x).collect::<Vec<i8>>() } else { iter_supermasks(x).collect::<Vec<i8>>() });
            let mut want: Vec<i8> = (0..=255u8).filter(|y| if kind == "subi8" { y & x as u8 == *y } else { y & x as u8 == x as u8 }).map(|y| y as i8).collect();
            if kind == "subi8" { want.reverse(); }
            if got != Ok(want.clone()) { return mk(format!("{}({}) = {:?}", kind, x, got), format!("{:?} (unsigned order of the bit patterns)", want)); } }
        "sub16" | "sup16" => { let x: u16 = arg.parse().unwrap_or(0);
            let got = guarded(|| if kind == "sub16" { iter_submasks(x).collect::<Vec<u16>>() } else { iter_supermasks(x).collect::<Vec<u16>>() });
            let mut want: Vec<u16> = (0..=u16::MAX).filter(|y| if kind == "sub16" { y & x == *y } else { y & x == x }).collect();
            if kind == "sub16" { want.reverse(); }
            if got != Ok(want.clone()) { return mk(format!("{}({}) differs (len {:?})", kind, x, got.map(|v| v.len())), format!("{} masks in order", want.len())); } }
        "fast16" => {
            // all 16-bit masks, unsigned and signed: strictly monotone in the unsigned order of the bit patterns, only sub- (super-) masks,
            // exactly 2^popcount of them, ending in 0 (all-ones): together that is "every one exactly once, in order"
            let x: u16 = arg.parse().unwrap_or(0);
            let got = guarded(|| (iter_submasks(x).collect::<Vec<u16>>(), iter_supermasks(x).collect::<Vec<u16>>(), iter_submasks(x as i16).collect::<Vec<i16>>(), iter_supermasks(x as i16).collect::<Vec<i16>>()));
            match got { Err(e) => return mk(format!("16-bit mask {:#x}: {}", x, e), "no panic".into()), Ok((a, b, c, d)) => {
                let ok_a = a.windows(2).all(|w| w[0] > w[1]) && a.iter().all(|y| y & x == *y) && a.len() == 1usize << x.count_ones() && a.last() == Some(&0);
                let ok_b = b.windows(2).all(|w| w[0] < w[1]) && b.iter().all(|y| y & x == x) && b.len() == 1usize << x.count_zeros() && b.last() == Some(&u16::MAX);
                let ok_c = c.iter().map(|v| *v as u16).collect::<Vec<_>>() == a && d.iter().map(|v| *v as u16).collect::<Vec<_>>() == b;
                if !(ok_a && ok_b && ok_c) { return mk(format!("masks of {:#06x} (u16 / i16): submasks ok = {}, supermasks ok = {}, signed agree = {}", x, ok_a, ok_b, ok_c), "every sub- / supermask once, in unsigned order".into()); } } } }
        "wide" => { let x: u64 = arg.parse().unwrap_or(0);
            let got = guarded(|| (iter_submasks(x).collect::<Vec<u64>>(), iter_supermasks(!x).collect::<Vec<u64>>(), iter_submasks(x as i64).collect::<Vec<i64>>(), iter_submasks((x as u128) << 64).collect::<Vec<u128>>()));
            match got { Err(e) => return mk(e, "no panic".into()), Ok((a, b, c, d)) => {
                let n = 1usize << x.count_ones();
                let dec = a.windows(2).all(|w| w[0] > w[1]) && a.iter().all(|y| y & x == *y) && a.len() == n && a.last() == Some(&0);
                let inc = b.windows(2).all(|w| w[0] < w[1]) && b.iter().all(|y| y & !x == !x) && b.len() == n && b.last() == Some(&u64::MAX);
                let sg = c.iter().map(|v| *v as u64).collect::<Vec<_>>() == a;
                let w = d.iter().map(|v| (*v >> 64) as u64).collect::<Vec<_>>() == a;
                if !(dec && inc && sg && w) { return mk(format!("wide masks of {:#x}: dec={} inc={} signed={} u128={}", x, dec, inc, sg, w), "all true".into()); } } }
            // every other width / signedness: same masks as the u64 run on the low bits, ending in 0 resp. all-ones (-1 for signed types)
            macro_rules! same_as_u64 { ($t:ty, $ut:ty) => {{
                let xm = (x as $ut) as $t;
                let want_sub: Vec<$ut> = { let xx = x as $ut; let mut v: Vec<$ut> = Vec::new(); let mut s = xx; loop { v.push(s); if s == 0 { break; } s = (s - 1) & xx; } v };
                let got = guarded(|| (iter_submasks(xm).map(|v| v as $ut).collect::<Vec<$ut>>(), iter_supermasks(!xm).map(|v| v as $ut).collect::<Vec<$ut>>()));
                match got { Err(e) => return mk(e, "no panic".into()), Ok((a, b)) => {
                    let want_sup: Vec<$ut> = { let mut v: Vec<$ut> = want_sub.iter().map(|s| !s).collect(); v.sort(); v };
                    if a != want_sub || b != want_sup { return mk(format!("{} masks of {:#x}: submasks {:?}.. supermasks ..{:?}", stringify!($t), x, a.iter().take(3).collect::<Vec<_>>(), b.iter().rev().take(2).collect::<Vec<_>>()),
                        format!("submasks {:?}.. supermasks ..{:?} (by bit pattern)", want_sub.iter().take(3).collect::<Vec<_>>(), want_sup.iter().rev().take(2).collect::<Vec<_>>())); } } }
            }}; }
            if x.count_ones() <= 12 {
                same_as_u64!(isize, usize); same_as_u64!(usize, usize); same_as_u64!(i64, u64); same_as_u64!(i32, u32); same_as_u64!(u32, u32);
                same_as_u64!(i16, u16); same_as_u64!(u16, u16); same_as_u64!(i128, u128); same_as_u64!(u128, u128);
            } }
        "perm" => { let v: Vec<u8> = arg.bytes().map(|b| b - b'0').collect();
            // next_permutation step against the sorted list of distinct arrangements
            let mut all: Vec<Vec<u8>> = Vec::new();
            fn rec(rem: &mut Vec<u8>, cur: &mut Vec<u8>, all: &mut Vec<Vec<u8>>) { if rem.is_empty() { all.push(cur.clone()); return; } for i in 0..rem.len() { let x = rem.remove(i); cur.push(x); rec(rem, cur, all); cur.pop(); rem.insert(i, x); } }
            rec(&mut v.clone(), &mut Vec::new(), &mut all); all.sort(); all.dedup();
            let pos = all.iter().position(|a| *a == v).unwrap();
            let mut w = v.clone();
            let r = guarded(|| { let r = next_permutation(&mut w); (r, w.clone()) });
            let want = if pos + 1 < all.len() { (true, all[pos + 1].clone()) } else { (false, all[0].clone()) };
            if r != Ok(want.clone()) { return mk(format!("next_permutation({:?}) = {:?}", v, r), format!("{:?}", want)); }
            let got = guarded(|| iter_permutations(v.clone()).take(all.len() + 2).collect::<Vec<_>>());
            if got != Ok(all.clone()) { return mk(format!("iter_permutations({:?}) yields {:?} items", v, got.map(|g| g.len())), format!("the {} distinct arrangements in lexicographic order", all.len())); } }
        "nb" => { let p: Vec<usize> = arg.split(',').map(|x| x.parse().unwrap_or(0)).collect(); let (n, m, i, j) = (p[0], p[1], p[2], p[3]);
            let f = |offs: &[(isize, isize)]| -> Vec<(usize, usize)> { offs.iter().filter_map(|&(x, y)| { let (a, b) = (i as isize + x, j as isize + y); if a >= 0 && a < n as isize && b >= 0 && b < m as isize { Some((a as usize, b as usize)) } else { None } }).collect() };
            let o4 = [(0, 1), (-1, 0), (0, -1), (1, 0)]; let od = [(-1, 1), (-1, -1), (1, -1), (1, 1)];
            let g4 = guarded(|| iter_neighbours_4(n, m, i, j).collect::<Vec<_>>());
            if g4 != Ok(f(&o4)) { return mk(format!("iter_neighbours_4 = {:?}", g4), format!("{:?}", f(&o4))); }
            let gd = guarded(|| iter_neighbours_4d(n, m, i, j).collect::<Vec<_>>());
            let mut sd = gd.clone().unwrap_or_default(); sd.sort(); let mut wd = f(&od); wd.sort();
            if gd.is_err() || sd != wd { return mk(format!("iter_neighbours_4d = {:?}", gd), format!("{:?} (as a set)", wd)); }
            let g8 = guarded(|| iter_neighbours_8(n, m, i, j).collect::<Vec<_>>());
            let mut s8 = g8.clone().unwrap_or_default(); s8.sort(); let mut w8 = f(&o4); w8.extend(f(&od)); w8.sort();
            if g8.is_err() || s8 != w8 || g8.as_ref().map(|v| v.len()) != Ok(w8.len()) { return mk(format!("iter_neighbours_8 = {:?}", g8), format!("{:?} (as a set)", w8)); } }
        _ => {}
    }
    None
}

pub fn run(_seed: u64, replay: Option<String>) -> Outcome {
    if let Some(r) = replay { let p: Vec<&str> = r.splitn(2, ';').collect(); return Outcome { cex: check(p[0], p.get(1).unwrap_or(&"")), cases: 1 }; }
    let mut cases = 0;
    for x in 0..=255u32 { for k in ["sub8", "sup8"] { cases += 1; if let Some(c) = check(k, &x.to_string()) { return Outcome { cex: Some(c), cases }; } } }
    for x in -128..=127i32 { for k in ["subi8", "supi8"] { cases += 1; if let Some(c) = check(k, &x.to_string()) { return Outcome { cex: Some(c), cases }; } } }
    for x in [0u32, 1, 0x8000, 0xffff, 0x00ff, 0xa5a5, 0x8001] { for k in ["sub16", "sup16"] { cases += 1; if let Some(c) = check(k, &x.to_string()) { return Outcome { cex: Some(c), cases }; } } }
    let thorough = std::env::var("VERIF_TIER").map(|t| t == "thorough").unwrap_or(false);
    // all 16-bit masks, unsigned and signed (3^16 masks in total)
    for x in 0..=u16::MAX as u32 { { cases += 1; if let Some(c) = check("fast16", &x.to_string()) { return Outcome { cex: Some(c), cases }; } } }
    for x in [0u64, 1, 1 << 63, 0x8000_0000_0000_0001, 0xf0f0, 0x8000_0001_0001_0003, u64::MAX >> 52 << 52] { cases += 1; if let Some(c) = check("wide", &x.to_string()) { return Outcome { cex: Some(c), cases }; } }
    for len in 0..=(if thorough { 7usize } else { 6 }) { let tot = 3usize.pow(len as u32); for code in 0..tot { let mut c = code; let mut s = String::new(); for _ in 0..len { s.push((b'0' + (c % 3) as u8) as char); c /= 3; }
        cases += 1; if let Some(x) = check("perm", &s) { return Outcome { cex: Some(x), cases }; } } }
    for s in ["0123", "3210", "01234", "43210", "012345", "0123456", "01234567", "76543210", "0011223", "3322110"] { cases += 1; if let Some(x) = check("perm", s) { return Outcome { cex: Some(x), cases }; } }
    for n in 1..=6usize { for m in 1..=6usize { for i in 0..n { for j in 0..m { cases += 1; if let Some(x) = check("nb", &format!("{},{},{},{}", n, m, i, j)) { return Outcome { cex: Some(x), cases }; } } } } }
    Outcome { cex: None, cases }
}
