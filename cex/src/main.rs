//! Counterexample search / replay against the REAL rlib crates (path dependencies on /repo).
//! Never the deciding step: it is run when a proof obligation fails, to turn the failure into a
//! concrete failing input, and in the thorough tier as contract validation on the unchanged tree.
//!
//! usage: rlib-cex <PROPERTY> <seed> [--replay <input string>]
//! output: one line `CEX {json}` with found / input / observed / expected / cases.
use std::panic::{catch_unwind, AssertUnwindSafe};

mod c01;
mod c03;
mod c05;
mod c06;
mod c07;
mod c08;
mod c09;
mod c11;
mod c12;
mod c13;
mod c14;
mod c15;
mod c18;
mod c19;

pub struct Cex {
    pub input: String,
    pub observed: String,
    pub expected: String,
}

pub struct Outcome {
    pub cex: Option<Cex>,
    pub cases: u64,
}

/// run `f`, mapping a panic of the real code to Err(message)
pub fn guarded<T>(f: impl FnOnce() -> T) -> Result<T, String> {
    catch_unwind(AssertUnwindSafe(f)).map_err(|e| {
        if let Some(s) = e.downcast_ref::<&str>() {
            format!("panic: {}", s)
        } else if let Some(s) = e.downcast_ref::<String>() {
            format!("panic: {}", s)
        } else {
            "panic".to_string()
        }
    })
}

pub struct Lcg(pub u64);
impl Lcg {
    pub fn next(&mut self) -> u64 {
        self.0 = self.0.wrapping_mul(6364136223846793005).wrapping_add(1442695040888963407);
        self.0 >> 33
    }
    pub fn below(&mut self, n: u64) -> u64 {
        self.next() % n
    }
}

fn esc(s: &str) -> String {
    let mut o = String::new();
    for c in s.chars() {
        match c {
            '"' => o.push_str("\\\""),
            '\\' => o.push_str("\\\\"),
            '\n' => o.push_str("\\n"),
            '\r' => o.push_str("\\r"),
            '\t' => o.push_str("\\t"),
            c if (c as u32) < 0x20 => o.push_str(&format!("\\u{:04x}", c as u32)),
            c => o.push(c),
        }
    }
    o
}

fn main() {
    std::panic::set_hook(Box::new(|_| {}));
    let args: Vec<String> = std::env::args().collect();
    if args.len() < 3 {
        eprintln!("usage: rlib-cex <PROPERTY> <seed> [--replay <input>]");
        std::process::exit(2);
    }
    let prop = args[1].as_str();
    let seed: u64 = args[2].parse().unwrap_or(0);
    let replay = if args.len() >= 5 && args[3] == "--replay" { Some(args[4].clone()) } else { None };
    let out = match prop {
        "C01" => c01::run(seed, replay, false),
        "C02" => c01::run(seed, replay, true),
        "C03" => c03::run(seed, replay, false),
        "C16" => c03::run(seed, replay, true),
        "C05" => c05::run(seed, replay),
        "C06" => c06::run(seed, replay),
        "C07" => c07::run(seed, replay),
        "C08" => c08::run(seed, replay),
        "C09" => c09::run(seed, replay),
        "C11" => c11::run(seed, replay),
        "C12" => c12::run(seed, replay),
        "C13" => c13::run(seed, replay),
        "C14" => c14::run(seed, replay),
        "C15" => c15::run(seed, replay),
        "C18" => c18::run(seed, replay),
        "C19" => c19::run(seed, replay),
        _ => {
            println!("CEX {{\"error\":\"no search for {}\"}}", prop);
            return;
        }
    };
    match out.cex {
        Some(c) => println!(
            "CEX {{\"found\":true,\"input\":\"{}\",\"observed\":\"{}\",\"expected\":\"{}\",\"cases\":{}}}",
            esc(&c.input),
            esc(&c.observed),
            esc(&c.expected),
            out.cases
        ),
        None => println!("CEX {{\"found\":false,\"cases\":{}}}", out.cases),
    }
}
