//! C07: Rational<i64> against exact i128 cross-multiplication. input encoding: "a;b;c;d"
use crate::{guarded, Cex, Outcome};
use rlib_rational::Rational;
use std::cmp::Ordering;

fn g(a: i128, b: i128) -> i128 { let (mut a, mut b) = (a.abs(), b.abs()); while b != 0 { let t = a % b; a = b; b = t; } a }
fn canon(n: i128, d: i128) -> (i128, i128) { let k = g(n, d); let (mut n, mut d) = (n / k, d / k); if d < 0 { n = -n; d = -d; } (n, d) }

fn check(a: i64, b: i64, c: i64, d: i64) -> Option<Cex> {
    if b == 0 || d == 0 { return None; }
    let (ai, bi, ci, di) = (a as i128, b as i128, c as i128, d as i128);
    let r = guarded(|| {
        let (x, y) = (Rational::<i64>::new(a, b), Rational::<i64>::new(c, d));
        let f = |r: Rational<i64>| (r.a as i128, r.b as i128);
        let mut v = vec![("new", f(x), canon(ai, bi)), ("add", f(x + y), canon(ai * di + ci * bi, bi * di)), ("add&", f(x + &y), canon(ai * di + ci * bi, bi * di)),
            ("sub", f(x - y), canon(ai * di - ci * bi, bi * di)), ("mul", f(x * y), canon(ai * ci, bi * di)), ("neg", f(-x), canon(-ai, bi))];
        if c != 0 { v.push(("div", f(x / y), canon(ai * di, bi * ci))); let mut t = x; t /= y; v.push(("div_assign", f(t), canon(ai * di, bi * ci))); }
        let mut t = x; t += y; v.push(("add_assign", f(t), canon(ai * di + ci * bi, bi * di)));
        let mut t = x; t -= &y; v.push(("sub_assign&", f(t), canon(ai * di - ci * bi, bi * di)));
        let mut t = x; t *= y; v.push(("mul_assign", f(t), canon(ai * ci, bi * di)));
        let (n, dd) = canon(ai, bi);
        v.push(("floor", f(x.floor()), (n.div_euclid(dd), 1)));
        v.push(("ceil", f(x.ceil()), (-((-n).div_euclid(dd)), 1)));
        let lhs = ai * di * (if bi * di < 0 { -1 } else { 1 }); let rhs = ci * bi * (if bi * di < 0 { -1 } else { 1 });
        let ord = lhs.cmp(&rhs);
        let got = x.cmp(&y);
        let eq = x == y;
        (v, ord, got, eq)
    });
    let mk = |o: String, e: String| Some(Cex { input: format!("{};{};{};{}", a, b, c, d), observed: format!("x={}/{} y={}/{}: {}", a, b, c, d, o), expected: e });
    match r {
        Err(e) => mk(e, "no panic".into()),
        Ok((v, ord, got, eq)) => {
            if let Some((n, g_, w)) = v.into_iter().find(|(_, g_, w)| g_ != w) { return mk(format!("{} gave {:?}", n, g_), format!("{:?}", w)); }
            if ord != got { return mk(format!("cmp gave {:?}", got), format!("{:?}", ord)); }
            if eq != (ord == Ordering::Equal) { return mk(format!("== gave {}", eq), format!("{}", ord == Ordering::Equal)); }
            None
        }
    }
}

pub fn run(_seed: u64, replay: Option<String>) -> Outcome {
    if let Some(r) = replay { let p: Vec<i64> = r.split(';').map(|x| x.parse().unwrap_or(1)).collect(); return Outcome { cex: check(p[0], p[1], p[2], p[3]), cases: 1 }; }
    let mut cases = 0;
    for a in -6..=6i64 { for b in -6..=6i64 { for c in -6..=6i64 { for d in -6..=6i64 { cases += 1; if let Some(x) = check(a, b, c, d) { return Outcome { cex: Some(x), cases }; } } } } }
    let big = [1i64 << 30, -(1 << 30), (1 << 30) - 1, 1073741789, -1073741789, 3, -2];
    for &a in &big { for &b in &big { for &c in &big { for &d in &big { cases += 1; if let Some(x) = check(a, b, c, d) { return Outcome { cex: Some(x), cases }; } } } } }
    Outcome { cex: None, cases }
}
