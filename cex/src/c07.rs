//! C07: Rational<T> for T = i64, i32, i128 against exact i128 cross-multiplication: every operator form (by value, by reference, assigning),
//! canonical form (lowest terms, positive denominator), ordering through `cmp`, `partial_cmp` and the comparison operators, `==` and hashing.
//! input encoding: "a;b;c;d" (i64)  |  "<type>;a;b;c;d"
use crate::{guarded, Cex, Outcome};
use rlib_rational::Rational;
use std::cmp::Ordering;
use std::collections::hash_map::DefaultHasher;
use std::hash::{Hash, Hasher};

fn g(a: i128, b: i128) -> i128 { let (mut a, mut b) = (a.abs(), b.abs()); while b != 0 { let t = a % b; a = b; b = t; } a }
fn canon(n: i128, d: i128) -> (i128, i128) { let k = g(n, d); let (mut n, mut d) = (n / k, d / k); if d < 0 { n = -n; d = -d; } (n, d) }
fn hash_of<T: Hash>(x: &T) -> u64 { let mut h = DefaultHasher::new(); x.hash(&mut h); h.finish() }

macro_rules! checker {
    ($name:ident, $t:ty, $tn:expr) => {
        fn $name(a: i64, b: i64, c: i64, d: i64) -> Option<Cex> {
            if b == 0 || d == 0 { return None; }
            let (ai, bi, ci, di) = (a as i128, b as i128, c as i128, d as i128);
            let (a, b, c, d) = (a as $t, b as $t, c as $t, d as $t);
            let mk = |o: String, e: String| Some(Cex { input: format!("{};{};{};{};{}", $tn, a, b, c, d), observed: format!("Rational<{}> x={}/{} y={}/{}: {}", $tn, a, b, c, d, o), expected: e });
            let r = guarded(|| {
                let (x, y) = (Rational::<$t>::new(a, b), Rational::<$t>::new(c, d));
                let f = |r: Rational<$t>| (r.a as i128, r.b as i128);
                let sum = canon(ai * di + ci * bi, bi * di);
                let dif = canon(ai * di - ci * bi, bi * di);
                let prd = canon(ai * ci, bi * di);
                let mut v = vec![("new", f(x), canon(ai, bi)), ("x + y", f(x + y), sum), ("x + &y", f(x + &y), sum), ("x - y", f(x - y), dif), ("x - &y", f(x - &y), dif),
                    ("x * y", f(x * y), prd), ("x * &y", f(x * &y), prd), ("-x", f(-x), canon(-ai, bi))];
                let mut t = x; t += y; v.push(("x += y", f(t), sum));
                let mut t = x; t += &y; v.push(("x += &y", f(t), sum));
                let mut t = x; t -= y; v.push(("x -= y", f(t), dif));
                let mut t = x; t -= &y; v.push(("x -= &y", f(t), dif));
                let mut t = x; t *= y; v.push(("x *= y", f(t), prd));
                let mut t = x; t *= &y; v.push(("x *= &y", f(t), prd));
                if ci != 0 {
                    let quo = canon(ai * di, bi * ci);
                    v.push(("x / y", f(x / y), quo)); v.push(("x / &y", f(x / &y), quo));
                    let mut t = x; t /= y; v.push(("x /= y", f(t), quo));
                    let mut t = x; t /= &y; v.push(("x /= &y", f(t), quo));
                }
                let (n, dd) = canon(ai, bi);
                v.push(("floor", f(x.floor()), (n.div_euclid(dd), 1)));
                v.push(("ceil", f(x.ceil()), (-((-n).div_euclid(dd)), 1)));
                // results of arithmetic are structurally equal to (and hash like) the freshly constructed canonical value
                let fresh = Rational::<$t>::new(prd.0 as $t, prd.1 as $t);
                let mut t = x; t *= &y;
                let structural = (t == fresh, hash_of(&t) == hash_of(&fresh), (x * y) == fresh, hash_of(&(x * y)) == hash_of(&fresh));
                let s = if bi * di < 0 { -1 } else { 1 };
                let ord = (ai * di * s).cmp(&(ci * bi * s));
                let rel = (x.cmp(&y), x.partial_cmp(&y), x < y, x <= y, x > y, x >= y, x == y, x != y, f(x.max(y)), f(x.min(y)), hash_of(&x) == hash_of(&y));
                (v, structural, ord, rel)
            });
            match r {
                Err(e) => mk(e, "no panic".into()),
                Ok((v, structural, ord, rel)) => {
                    if let Some((n, g_, w)) = v.into_iter().find(|(_, g_, w)| g_ != w) { return mk(format!("{} gave {:?}", n, g_), format!("{:?} (lowest terms, positive denominator)", w)); }
                    if structural != (true, true, true, true) { return mk(format!("(x *= &y) == new(p, q), same hash, (x * y) == new(p, q), same hash = {:?}", structural), "all true".into()); }
                    let (big, small) = if ord == Ordering::Less { (canon(ci, di), canon(ai, bi)) } else { (canon(ai, bi), canon(ci, di)) };
                    let want = (ord, Some(ord), ord == Ordering::Less, ord != Ordering::Greater, ord == Ordering::Greater, ord != Ordering::Less, ord == Ordering::Equal, ord != Ordering::Equal, big, small);
                    let got = (rel.0, rel.1, rel.2, rel.3, rel.4, rel.5, rel.6, rel.7, rel.8, rel.9);
                    if got != want { return mk(format!("(cmp, partial_cmp, <, <=, >, >=, ==, !=, max, min) = {:?}", got), format!("{:?}", want)); }
                    if ord == Ordering::Equal && !rel.10 { return mk("numerically equal values hash differently".into(), "equal hashes".into()); }
                    None
                }
            }
        }
    };
}
checker!(check_i64, i64, "i64");
checker!(check_i32, i32, "i32");
checker!(check_i128, i128, "i128");

pub fn run(_seed: u64, replay: Option<String>) -> Outcome {
    if let Some(r) = replay {
        let p: Vec<&str> = r.split(';').collect();
        let (ty, rest) = if p[0].starts_with('i') { (p[0], &p[1..]) } else { ("i64", &p[..]) };
        let n: Vec<i64> = rest.iter().map(|x| x.parse().unwrap_or(1)).collect();
        let c = match ty { "i32" => check_i32(n[0], n[1], n[2], n[3]), "i128" => check_i128(n[0], n[1], n[2], n[3]), _ => check_i64(n[0], n[1], n[2], n[3]) };
        return Outcome { cex: c, cases: 1 };
    }
    let mut cases = 0;
    for a in -6..=6i64 { for b in -6..=6i64 { for c in -6..=6i64 { for d in -6..=6i64 {
        cases += 3;
        if let Some(x) = check_i64(a, b, c, d).or_else(|| check_i32(a, b, c, d)).or_else(|| check_i128(a, b, c, d)) { return Outcome { cex: Some(x), cases }; }
    } } } }
    let big = [1i64 << 30, -(1 << 30), (1 << 30) - 1, 1073741789, -1073741789, 3, -2, 0];
    for &a in &big { for &b in &big { for &c in &big { for &d in &big { cases += 2; if let Some(x) = check_i64(a, b, c, d).or_else(|| check_i128(a, b, c, d)) { return Outcome { cex: Some(x), cases }; } } } } }
    // i32: products of two operands must fit (|values| <= 2^14 with shared factors)
    let mid = [1i64 << 14, -(1 << 14), 16381, -16381, 12, -18, 0, 7];
    for &a in &mid { for &b in &mid { for &c in &mid { for &d in &mid { cases += 1; if let Some(x) = check_i32(a, b, c, d) { return Outcome { cex: Some(x), cases }; } } } } }
    Outcome { cex: None, cases }
}
