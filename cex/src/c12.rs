//! C12: Bitset<2> against a set of indices. input encoding: "op,op,..." ops: s<i> r<i> f<i> c A<w0>:<w1> O.. X.. N W<word>
use crate::{guarded, Cex, Lcg, Outcome};
use rlib_bitset::Bitset;
use std::collections::BTreeSet;

type Op = (char, u64, u64);

fn from_words<const N: usize>(w0: u64, w1: u64) -> (Bitset<N>, BTreeSet<usize>) {
    let mut b = Bitset::<N>::new();
    let mut s = BTreeSet::new();
    for i in 0..64 { if w0 >> i & 1 == 1 { b.set(i); s.insert(i); } if N >= 2 && w1 >> i & 1 == 1 { b.set(64 * (N - 1) + i); s.insert(64 * (N - 1) + i); } }
    (b, s)
}

fn exec<const N: usize>(ops: &[Op]) -> Option<(String, String)> {
    let r = guarded(|| {
        let mut b = Bitset::<N>::new();
        let mut s: BTreeSet<usize> = BTreeSet::new();
        for &(op, x, y) in ops {
            let x = if "srf".contains(op) { x % (64 * N as u64) } else { x };
            match op {
                's' => { b.set(x as usize); s.insert(x as usize); }
                'r' => { b.remove(x as usize); s.remove(&(x as usize)); }
                'f' => { b.flip(x as usize); if !s.remove(&(x as usize)) { s.insert(x as usize); } }
                'c' => { b.clear(); s.clear(); }
                'W' => { b = Bitset::<N>::from_u64(x); s = (0..64).filter(|i| x >> i & 1 == 1).collect(); }
                'A' | 'O' | 'X' | 'a' | 'o' | 'x' => {
                    let (o, os) = from_words::<N>(x, y);
                    let ns: BTreeSet<usize> = match op.to_ascii_uppercase() { 'A' => s.intersection(&os).cloned().collect(), 'O' => s.union(&os).cloned().collect(), _ => s.symmetric_difference(&os).cloned().collect() };
                    match op { 'A' => b = &b & &o, 'O' => b = &b | &o, 'X' => b = &b ^ &o, 'a' => b &= &o, 'o' => b |= &o, _ => b ^= &o }
                    s = ns;
                }
                'N' => { b = !b; s = (0..64 * N).filter(|i| !s.contains(i)).collect(); }
                _ => {}
            }
            let bits: Vec<usize> = b.iter_bits().collect();
            let want: Vec<usize> = s.iter().cloned().collect();
            if bits != want { return Some((format!("iter_bits() = {:?}", bits), format!("{:?}", want))); }
            // the iterator describes the set also after it has been advanced (count / nth on the remainder)
            let mut it = b.iter_bits();
            let adv = s.len().min(2);
            for _ in 0..adv { it.next(); }
            let rest = it.count();
            if rest != s.len() - adv { return Some((format!("iter_bits() advanced by {} then count() = {}", adv, rest), format!("{}", s.len() - adv))); }
            if b.count() != s.len() { return Some((format!("count() = {}", b.count()), format!("{}", s.len()))); }
            for i in 0..64 * N { if b.test(i) != s.contains(&i) { return Some((format!("test({}) = {}", i, b.test(i)), format!("{}", s.contains(&i)))); } }
            let txt: String = (0..64 * N).map(|i| if s.contains(&i) { '1' } else { '0' }).collect();
            if format!("{}", b) != txt || format!("{:?}", b) != txt { return Some((format!("rendering {}", b), txt)); }
            let (same, _) = { let mut w = [0u64; 2]; for &i in &s { if i < 64 { w[0] |= 1 << i; } else if i >= 64 * (N - 1) { w[1] |= 1 << (i % 64); } } let (mut bb, ss) = from_words::<N>(w[0], w[1]); for &i in &s { bb.set(i); } (bb, ss) };
            if !(b == same) { return Some(("== with an equal set is false".into(), "true".into())); }
            let mut other = same; other.flip(64 * N - 1);
            if b == other { return Some(("== with a different set is true".into(), "false".into())); }
        }
        None
    });
    match r { Ok(x) => x, Err(e) => Some((e, "no panic".into())) }
}

fn enc(ops: &[Op]) -> String { ops.iter().map(|(o, x, y)| format!("{}{}:{}", o, x, y)).collect::<Vec<_>>().join(",") }

/// "for every capacity": dense sets on many-word bitsets (patterns that put hundreds of members at the same position of their words)
fn big_case<const N: usize>(pattern: u64) -> Option<(String, String)> {
    let r = guarded(|| {
        let mut b = Bitset::<N>::new();
        let mut s: BTreeSet<usize> = BTreeSet::new();
        for i in 0..64 * N {
            let on = match pattern { 0 => true, 1 => i % 64 < 8, 2 => i % 64 >= 56, 3 => i % 3 != 0, 4 => (i / 64) % 2 == 0, _ => i % 64 == 63 || i % 64 == 0 };
            if on { b.set(i); s.insert(i); }
        }
        let mut other = Bitset::<N>::new();
        let mut os: BTreeSet<usize> = BTreeSet::new();
        for i in (0..64 * N).step_by(5) { other.set(i); os.insert(i); }
        let chk = |what: &str, b: &Bitset<N>, s: &BTreeSet<usize>| -> Option<(String, String)> {
            if b.count() != s.len() { return Some((format!("{}: count() = {}", what, b.count()), format!("{}", s.len()))); }
            let bits: Vec<usize> = b.iter_bits().collect();
            if bits != s.iter().cloned().collect::<Vec<_>>() { return Some((format!("{}: iter_bits() yields {} indices", what, bits.len()), format!("the {} members in ascending order", s.len()))); }
            for i in 0..64 * N { if b.test(i) != s.contains(&i) { return Some((format!("{}: test({}) = {}", what, i, b.test(i)), format!("{}", s.contains(&i)))); } }
            None
        };
        if let Some(x) = chk("dense set", &b, &s) { return Some(x); }
        let (a, o, x) = (&b & &other, &b | &other, &b ^ &other);
        if let Some(e) = chk("&", &a, &s.intersection(&os).cloned().collect()) { return Some(e); }
        if let Some(e) = chk("|", &o, &s.union(&os).cloned().collect()) { return Some(e); }
        if let Some(e) = chk("^", &x, &s.symmetric_difference(&os).cloned().collect()) { return Some(e); }
        let mut t = b.clone(); t &= &other; if !(t == a) { return Some(("&= differs from &".into(), "equal".into())); }
        let mut t = b.clone(); t |= &other; if !(t == o) { return Some(("|= differs from |".into(), "equal".into())); }
        let mut t = b.clone(); t ^= &other; if !(t == x) { return Some(("^= differs from ^".into(), "equal".into())); }
        let n = !b.clone();
        if let Some(e) = chk("!", &n, &(0..64 * N).filter(|i| !s.contains(i)).collect()) { return Some(e); }
        None
    });
    match r { Ok(x) => x, Err(e) => Some((e, "no panic".into())) }
}

pub fn run(seed: u64, replay: Option<String>) -> Outcome {
    if let Some(r) = &replay {
        if let Some(rest) = r.strip_prefix("big;") {
            let p: Vec<u64> = rest.split(';').map(|x| x.parse().unwrap_or(0)).collect();
            let c = match p[0] { 4 => big_case::<4>(p[1]), 10 => big_case::<10>(p[1]), 33 => big_case::<33>(p[1]), _ => big_case::<40>(p[1]) };
            return Outcome { cex: c.map(|(o, e)| Cex { input: r.clone(), observed: o, expected: e }), cases: 1 };
        }
    }
    if let Some(r) = replay {
        let body = r.split('|').last().unwrap_or("").to_string();
        let ops: Vec<Op> = body.split(',').filter(|x| !x.is_empty()).map(|o| { let c = o.chars().next().unwrap(); let p: Vec<u64> = o[1..].split(':').map(|x| x.parse().unwrap_or(0)).collect(); (c, p[0], *p.get(1).unwrap_or(&0)) }).collect();
        let n: usize = r.split('|').next().and_then(|x| x.parse().ok()).unwrap_or(2);
        let res = match n { 1 => exec::<1>(&ops), 3 => exec::<3>(&ops), _ => exec::<2>(&ops) };
        return Outcome { cex: res.map(|(o, e)| Cex { input: r.clone(), observed: o, expected: e }), cases: 1 };
    }
    let mut rng = Lcg(seed ^ 0xc12);
    let mut cases = 0;
    for pat in 0..6u64 {
        for n in [4u64, 10, 33, 40] {
            cases += 1;
            let c = match n { 4 => big_case::<4>(pat), 10 => big_case::<10>(pat), 33 => big_case::<33>(pat), _ => big_case::<40>(pat) };
            if let Some((o, e)) = c { return Outcome { cex: Some(Cex { input: format!("big;{};{}", n, pat), observed: format!("N={}: {}", n, o), expected: e }), cases }; }
        }
    }
    let idx = [0u64, 1, 62, 63, 64, 65, 126, 127];
    let words = [0u64, 1, u64::MAX, 1 << 63, 0x8000_0000_0000_0001, 0xAAAA_AAAA_AAAA_AAAA];
    for _ in 0..4000 {
        let mut ops = Vec::new();
        for _ in 0..(1 + rng.below(6)) {
            let k = "srfcWAOXaoxN".as_bytes()[rng.below(12) as usize] as char;
            let x = if "srf".contains(k) { if rng.below(2) == 0 { idx[rng.below(8) as usize] } else { rng.below(128) } } else { if rng.below(2) == 0 { words[rng.below(6) as usize] } else { rng.next() << 31 ^ rng.next() } };
            let y = if rng.below(2) == 0 { words[rng.below(6) as usize] } else { rng.next() << 31 ^ rng.next() };
            ops.push((k, x, y));
        }
        cases += 1;
        for n in [2usize, 1, 3] {
            let res = match n { 1 => exec::<1>(&ops), 3 => exec::<3>(&ops), _ => exec::<2>(&ops) };
            if let Some((o, e)) = res { return Outcome { cex: Some(Cex { input: format!("{}|{}", n, enc(&ops)), observed: format!("N={}: {}", n, o), expected: e }), cases }; }
        }
    }
    Outcome { cex: None, cases }
}
