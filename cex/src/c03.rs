//! C03 / C16: treap against a Vec, with NON-COMMUTING lazy modifiers (affine maps mod 1_000_003),
//! aggregate = sum; heap order of the public priority fields.
//! input encoding: "op;op;..." ops: i<pos>:<val>  r<pos>  m<l>-<r>:<a>,<c> (range modify via split/merge)  q<l>-<r>  v (rotate: split+swap)  p<k> (split_by size)
use crate::{guarded, Cex, Lcg, Outcome};
use rlib_treap::{Treap, TreapItem, TreapItemSized, TreapNode};

const P: u64 = 1_000_003;
#[derive(Debug, Clone)]
struct It {
    key: u64, // strictly increasing along the sequence (never touched by modifications): split_by(|it| it.key < K) is prefix-monotone
    x: u64,
    sm: u64,
    h: u64, // order-sensitive aggregate: sum of x_i * B^(len-1-i) - the fold of a NON-commutative merge (a mirrored subsequence changes it)
    g: u64, // sum of B^(len-1-i): what a pending `+ c` contributes to h per unit of c
    sz: usize,
    a: u64,
    c: u64,
}
impl It {
    fn new(x: u64) -> Self {
        It { key: 0, x, sm: x, h: x, g: 1, sz: 1, a: 1, c: 0 }
    }
    fn keyed(x: u64, key: u64) -> Self {
        It { key, x, sm: x, h: x, g: 1, sz: 1, a: 1, c: 0 }
    }
    fn modify(&mut self, a: u64, c: u64) {
        self.x = (a * self.x + c) % P;
        self.sm = (a * self.sm + c * self.sz as u64) % P;
        self.h = (a * self.h + c * self.g) % P;
        self.a = a * self.a % P;
        self.c = (a * self.c + c) % P;
    }
}
const B: u64 = 911;
fn pw(mut k: u64) -> u64 {
    let (mut r, mut b) = (1u64, B);
    while k > 0 { if k & 1 == 1 { r = r * b % P; } b = b * b % P; k >>= 1; }
    r
}
impl It {
    /// the aggregate compared with the model: sum (low half) and order-sensitive hash (high half)
    fn ag(&self) -> u64 { self.sm + (self.h << 32) }
}
/// sum and order-sensitive hash of a plain sequence
fn want(v: &[u64]) -> u64 {
    let mut h = 0u64;
    for &x in v { h = (h * B + x) % P; }
    v.iter().sum::<u64>() % P + (h << 32)
}
impl TreapItem for It {
    fn update(&mut self, l: Option<&Self>, r: Option<&Self>) {
        self.sm = (l.map(|i| i.sm).unwrap_or(0) + self.x + r.map(|i| i.sm).unwrap_or(0)) % P;
        self.sz = l.map(|i| i.sz).unwrap_or(0) + 1 + r.map(|i| i.sz).unwrap_or(0);
        let szr = r.map(|i| i.sz).unwrap_or(0) as u64;
        let (hl, gl) = l.map(|i| (i.h, i.g)).unwrap_or((0, 0));
        let (hr, gr) = r.map(|i| (i.h, i.g)).unwrap_or((0, 0));
        self.h = (hl * pw(szr + 1) % P + self.x * pw(szr) % P + hr) % P;
        self.g = (gl * pw(szr + 1) % P + pw(szr) + gr) % P;
    }
    fn push(&mut self, l: Option<&mut Self>, r: Option<&mut Self>) {
        if let Some(l) = l {
            l.modify(self.a, self.c);
        }
        if let Some(r) = r {
            r.modify(self.a, self.c);
        }
        self.a = 1;
        self.c = 0;
    }
}
impl TreapItemSized for It {
    fn size(&self) -> usize {
        self.sz
    }
}

#[derive(Clone, Debug)]
enum Op {
    Ins(usize, u64),
    Rem(usize),
    Mod(usize, usize, u64, u64),
    Sum(usize, usize),
    Rot(usize),
    SplitBy(usize),
    Move(usize, usize),   // remove_at(p) and insert the returned item itself at q (not a fresh copy)
    First,       // first() right now (before anything else pushes the root's pending modification)
    Last,
    Flat(u64),   // overwrite the (public) priorities: 0 = all equal, 1 = equal within a level - heap-ordered, full of ties
}
fn flatten(n: &mut Option<Box<TreapNode<It>>>, mode: u64, depth: u32) {
    if let Some(b) = n {
        b.priority = if mode == 0 { 7 } else { 1000 * depth };
        flatten(&mut b.left, mode, depth + 1);
        flatten(&mut b.right, mode, depth + 1);
    }
}

fn heap_ok(n: &Option<Box<TreapNode<It>>>) -> Option<bool> {
    // returns Some(direction) consistent, None if violated. direction true = min-heap
    fn walk(n: &TreapNode<It>, dirs: &mut (bool, bool)) {
        for ch in [&n.left, &n.right] {
            if let Some(c) = ch {
                if n.priority < c.priority {
                    dirs.0 = true;
                }
                if n.priority > c.priority {
                    dirs.1 = true;
                }
                walk(c, dirs);
            }
        }
    }
    let mut d = (false, false);
    if let Some(r) = n {
        walk(r, &mut d);
    }
    if d.0 && d.1 { None } else { Some(d.0) }
}

fn exec(ops: &[Op], heap_only: bool) -> Option<(String, String)> {
    let r = guarded(|| {
        let mut t: Treap<It> = Treap::new();
        let mut v: Vec<u64> = Vec::new();
        let mut keys: Vec<u64> = Vec::new();
        let mut dir: Option<bool> = None;
        let mut steps_left = ops.len();
        for o in ops {
            match o {
                Op::Ins(p, x) => {
                    let p = (*p).min(v.len());
                    let lo = if p == 0 { 0 } else { keys[p - 1] };
                    let hi = if p == v.len() { 1u64 << 62 } else { keys[p] };
                    let key = lo + (hi - lo) / 2;
                    t.insert_at(p, It::keyed(*x, key));
                    v.insert(p, *x);
                    keys.insert(p, key);
                }
                Op::Rem(p) => {
                    if v.is_empty() {
                        continue;
                    }
                    let p = p % v.len();
                    let got = t.remove_at(p).x;
                    let want = v.remove(p);
                    keys.remove(p);
                    if got != want && !heap_only {
                        return Some((format!("remove_at({}) returned {}", p, got), format!("{}", want)));
                    }
                }
                Op::Move(p, q) => {
                    if v.is_empty() { continue; }
                    let p = p % v.len();
                    let it = t.remove_at(p);
                    let x = v.remove(p);
                    keys.remove(p);
                    if it.x != x && !heap_only { return Some((format!("remove_at({}) returned {}", p, it.x), format!("{}", x))); }
                    let q = (*q).min(v.len());
                    let lo = if q == 0 { 0 } else { keys[q - 1] };
                    let hi = if q == v.len() { 1u64 << 62 } else { keys[q] };
                    let mut it = it;
                    it.key = lo + (hi - lo) / 2;
                    t.insert_at(q, it);
                    v.insert(q, x);
                    keys.insert(q, lo + (hi - lo) / 2);
                }
                Op::First | Op::Last => {
                    let (got, want_) = if matches!(o, Op::First) { (t.first().map(|i| i.x), v.first().copied()) } else { (t.last().map(|i| i.x), v.last().copied()) };
                    if got != want_ && !heap_only {
                        return Some((format!("{} = {:?}", if matches!(o, Op::First) { "first()" } else { "last()" }, got), format!("{:?}", want_)));
                    }
                }
                Op::Flat(mode) => flatten(&mut t.root, *mode, 0),
                Op::Mod(..) | Op::Sum(..) if v.is_empty() => {}
                Op::Mod(l, r, a, c) => {
                    let l = l % v.len();
                    let r = l + r % (v.len() - l);
                    let (t1, t23) = std::mem::replace(&mut t, Treap::new()).split_at(l);
                    let (mut t2, t3) = t23.split_at(r - l + 1);
                    if let Some(root) = t2.root_mut() {
                        root.modify(*a, *c);
                    }
                    t = Treap::merge(Treap::merge(t1, t2), t3);
                    for x in v[l..=r].iter_mut() {
                        *x = (a * *x + c) % P;
                    }
                }
                Op::Sum(l, r) => {
                    let l = l % v.len();
                    let r = l + r % (v.len() - l);
                    let (t1, t23) = std::mem::replace(&mut t, Treap::new()).split_at(l);
                    let (t2, t3) = t23.split_at(r - l + 1);
                    let got = t2.root().map(|i| i.ag()).unwrap_or(0);
                    let gsz = t2.size();
                    let want = want(&v[l..=r]);
                    t = Treap::merge(Treap::merge(t1, t2), t3);
                    if (got != want || gsz != r - l + 1) && !heap_only {
                        return Some((format!("aggregate of the split-out part [{}..={}] = {} (size {})", l, r, got, gsz), format!("{} (size {})", want, r - l + 1)));
                    }
                }
                Op::Rot(k) => {
                    let k = if v.is_empty() { 0 } else { k % (v.len() + 1) };
                    let (a, b) = std::mem::replace(&mut t, Treap::new()).split_at(k);
                    t = Treap::merge(b, a);
                    v.rotate_left(k);
                    // keys must stay increasing: re-key the whole sequence through a rebuild
                    keys.rotate_left(k);
                    let mut vals: Vec<u64> = t.collect().iter().map(|i| i.x).collect();
                    let n = vals.len() as u64;
                    let mut nt: Treap<It> = Treap::new();
                    for (j, x) in vals.drain(..).enumerate() {
                        let key = (j as u64 + 1) * ((1u64 << 62) / (n + 1));
                        nt.insert_at(j, It::keyed(x, key));
                        keys[j] = key;
                    }
                    t = nt;
                }
                Op::SplitBy(k) => {
                    let k = if v.is_empty() { 0 } else { k % (v.len() + 1) };
                    // prefix-monotone predicate on a shared counter: true for the first k elements in order
                    // (split_by descends from the root, so use the size of the left part instead)
                    // a real split_by with a prefix-monotone predicate on the immutable key (pending modifications still attached)
                    let bound = if k == v.len() { u64::MAX } else { keys[k] };
                    let (mut a, mut b) = std::mem::replace(&mut t, Treap::new()).split_by(|it: &It| it.key < bound);
                    let ga: Vec<u64> = a.collect().iter().map(|i| i.x).collect();
                    let gb: Vec<u64> = b.collect().iter().map(|i| i.x).collect();
                    let (sa, sb) = (a.size(), b.size());
                    let (ra, rb) = (a.root().map(|i| i.ag()).unwrap_or(0), b.root().map(|i| i.ag()).unwrap_or(0));
                    t = Treap::merge(a, b);
                    if !heap_only {
                        if ga != v[..k] || gb != v[k..] {
                            return Some((format!("split_by(first {} elements) = {:?} | {:?}", k, ga, gb), format!("{:?} | {:?}", &v[..k], &v[k..])));
                        }
                        if (sa, sb) != (k, v.len() - k) || ra != want(&v[..k]) || rb != want(&v[k..]) {
                            return Some((format!("split_by(first {}) sizes ({}, {}) aggregates ({}, {})", k, sa, sb, ra, rb), "sizes and folds of the two subsequences".into()));
                        }
                    }
                }
            }
            match heap_ok(&t.root) {
                None => return Some(("node priorities are not heap-ordered in one direction".into(), "heap order on every parent-child edge".into())),
                Some(_) => {}
            }
            // observing the sequence pushes every pending modification down, so it is done only after the LAST operation:
            // modifications must be able to stay pending across operations (that is what the property is about)
            steps_left -= 1;
            if !heap_only && t.size() != v.len() {
                return Some((format!("size() = {}", t.size()), format!("{}", v.len())));
            }
            if !heap_only && t.root().map(|i| i.ag()).unwrap_or(0) != want(&v) {
                return Some((format!("root aggregate {}", t.root().map(|i| i.ag()).unwrap_or(0)), format!("{}", want(&v))));
            }
            if !heap_only && steps_left == 0 {
                let got: Vec<u64> = t.collect().iter().map(|i| i.x).collect();
                if got != v {
                    return Some((format!("collect() = {:?}", got), format!("{:?}", v)));
                }
                if t.size() != v.len() {
                    return Some((format!("size() = {}", t.size()), format!("{}", v.len())));
                }
                let f = t.first().map(|i| i.x);
                let l = t.last().map(|i| i.x);
                if f != v.first().copied() || l != v.last().copied() {
                    return Some((format!("first/last = {:?}/{:?}", f, l), format!("{:?}/{:?}", v.first(), v.last())));
                }
                let rs = t.root().map(|i| i.ag()).unwrap_or(0);
                if rs != want(&v) {
                    return Some((format!("root aggregate {}", rs), format!("{}", want(&v))));
                }
            }
            let _ = &mut dir;
        }
        None
    });
    match r {
        Ok(x) => x,
        Err(e) => Some((e, "no panic".into())),
    }
}

fn enc(ops: &[Op]) -> String {
    ops.iter().map(|o| match o {
        Op::Ins(p, x) => format!("i{}:{}", p, x),
        Op::Rem(p) => format!("r{}", p),
        Op::Mod(l, r, a, c) => format!("m{}-{}:{},{}", l, r, a, c),
        Op::Sum(l, r) => format!("q{}-{}", l, r),
        Op::Rot(k) => format!("v{}", k),
        Op::SplitBy(k) => format!("p{}", k),
        Op::Move(p, q) => format!("M{}-{}", p, q),
        Op::First => "F0".to_string(),
        Op::Last => "L0".to_string(),
        Op::Flat(m) => format!("t{}", m),
    }).collect::<Vec<_>>().join(";")
}
fn dec(s: &str) -> Vec<Op> {
    let num = |x: &str| x.parse::<u64>().unwrap_or(0);
    s.split(';').filter(|x| !x.is_empty()).filter_map(|o| {
        let (k, rest) = o.split_at(1);
        let parts: Vec<&str> = rest.split(|c| c == ':' || c == '-' || c == ',').collect();
        Some(match k {
            "i" => Op::Ins(num(parts[0]) as usize, num(parts.get(1)?)),
            "r" => Op::Rem(num(parts[0]) as usize),
            "m" => Op::Mod(num(parts[0]) as usize, num(parts.get(1)?) as usize, num(parts.get(2)?), num(parts.get(3)?)),
            "q" => Op::Sum(num(parts[0]) as usize, num(parts.get(1)?) as usize),
            "v" => Op::Rot(num(parts[0]) as usize),
            "p" => Op::SplitBy(num(parts[0]) as usize),
            "M" => Op::Move(num(parts[0]) as usize, num(parts.get(1)?) as usize),
            "F" => Op::First,
            "L" => Op::Last,
            "t" => Op::Flat(num(parts[0])),
            _ => return None,
        })
    }).collect()
}

/// height (nodes on the longest root-to-leaf path), measured without recursion: a degenerate tree must not overflow the checker's stack
fn height(root: &Option<Box<TreapNode<It>>>) -> usize {
    let mut best = 0;
    let mut stack: Vec<(&TreapNode<It>, usize)> = Vec::new();
    if let Some(r) = root { stack.push((r, 1)); }
    while let Some((n, d)) = stack.pop() {
        best = best.max(d);
        if let Some(c) = &n.left { stack.push((c, d + 1)); }
        if let Some(c) = &n.right { stack.push((c, d + 1)); }
    }
    best
}
fn height_bound(n: usize) -> usize { (5.0 * ((n + 1) as f64).log2() + 20.0).floor() as usize }

/// C16, height clause (BOUNDED, statistical): grow a treap to `n` elements by an order that degenerates an unbalanced search tree and compare
/// its height with 5*log2(n+1)+20 at every doubling (so that a chain is noticed at a few hundred nodes, long before the library's
/// recursive split / merge could exhaust the stack).  family: 0 sorted appends, 1 repeated front insertion, 2 split-and-swap rotations,
/// 3 appends interleaved with removals of the front, 4 merges of single-node treaps from the left, 5 appends of nodes each created on its own thread
fn height_case(family: u64, n: usize) -> Option<(String, String)> {
    if family >= 200 {
        return roundrobin_case(family - 200, n);
    }
    if family >= 100 {
        return stride_case(family - 100, n);
    }
    let r = guarded(|| {
        let mut t: Treap<It> = Treap::new();
        let mut len = 0usize;
        let mut next_check = 64usize;
        let mut k = 0u64;
        while len < n {
            k += 1;
            match family {
                0 => { t.insert_at(len, It::new(k)); len += 1; }
                1 => { t.insert_at(0, It::new(k)); len += 1; }
                2 => {
                    t.insert_at(len / 2, It::new(k)); len += 1;
                    if len >= 2 { let (a, b) = std::mem::replace(&mut t, Treap::new()).split_at(1 + (k as usize * 7919) % (len - 1)); t = Treap::merge(b, a); }
                }
                3 => {
                    t.insert_at(len, It::new(k)); t.insert_at(len + 1, It::new(k)); len += 2;
                    if k % 3 == 0 { t.remove_at(0); len -= 1; }
                }
                5 => {
                    // every node is created on a thread of its own (spawn, join: nothing runs concurrently): the priorities must still differ
                    let single = std::thread::spawn(move || Treap::from_item(It::new(k))).join().unwrap();
                    t = Treap::merge(std::mem::replace(&mut t, Treap::new()), single);
                    len += 1;
                }
                _ => { t = Treap::merge(Treap::from_item(It::new(k)), std::mem::replace(&mut t, Treap::new())); len += 1; }
            }
            if len >= next_check || len >= n {
                next_check = len * 2;
                let (h, b) = (height(&t.root), height_bound(len));
                if h > b { return Some((format!("height {} with {} elements (family {})", h, len, family), format!("at most 5*log2(n+1)+20 = {}", b))); }
                if t.size() != len { return Some((format!("size() = {} after building {} elements", t.size(), len), format!("{}", len))); }
            }
        }
        None
    });
    match r { Ok(x) => x, Err(e) => Some((e, "no panic".into())) }
}

/// C16, height clause, structure of the priority stream (BOUNDED): a program that keeps 2^k treaps and feeds them round-robin gives each
/// of them every 2^k-th priority the process-wide generator produces.  Build one treap of `n` sorted appends from every 2^k-th created
/// node (the nodes in between are created and dropped) and compare its height with the bound: priorities whose low bits cycle, or that
/// form an arithmetic progression at some stride, degenerate such a treap although a single treap fed consecutively looks balanced.
fn stride_case(k: u64, n: usize) -> Option<(String, String)> {
    let r = guarded(|| {
        let stride = 1usize << k;
        let mut t: Treap<It> = Treap::new();
        for i in 0..n {
            t.insert_at(i, It::new(i as u64));
            for _ in 1..stride {
                let _skipped = TreapNode::new(It::new(0));
            }
            if (i + 1) % 64 == 0 || i + 1 == n {
                let (h, b) = (height(&t.root), height_bound(i + 1));
                if h > b { return Some((format!("height {} with {} elements when the treap receives every {}-th created node", h, i + 1, stride), format!("at most 5*log2(n+1)+20 = {}", b))); }
            }
        }
        None
    });
    match r { Ok(x) => x, Err(e) => Some((e, "no panic".into())) }
}

/// the same with every residue class observed: 2^k treaps fed round-robin by sorted appends, `rounds` elements each; every one of
/// them must respect the bound (a weak priority source typically spoils only some residue classes)
fn roundrobin_case(k: u64, rounds: usize) -> Option<(String, String)> {
    let r = guarded(|| {
        let cnt = 1usize << k;
        let mut ts: Vec<Treap<It>> = (0..cnt).map(|_| Treap::new()).collect();
        for i in 0..rounds {
            for t in ts.iter_mut() {
                t.insert_at(i, It::new(i as u64));
            }
            if (i + 1) % 128 == 0 || i + 1 == rounds {
                let b = height_bound(i + 1);
                let mut worst = (0usize, 0usize);
                let mut over = 0usize;
                for (j, t) in ts.iter().enumerate() {
                    let h = height(&t.root);
                    if h > b { over += 1; }
                    if h > worst.0 { worst = (h, j); }
                }
                if over > 0 {
                    return Some((format!("{} of {} treaps fed round-robin exceed the bound with {} elements each; the worst is treap {} with height {}", over, cnt, i + 1, worst.1, worst.0), format!("at most 5*log2(n+1)+20 = {}", b)));
                }
            }
        }
        None
    });
    match r { Ok(x) => x, Err(e) => Some((e, "no panic".into())) }
}

pub fn run(seed: u64, replay: Option<String>, heap_only: bool) -> Outcome {
    if let Some(r) = &replay {
        if let Some(rest) = r.strip_prefix("height;") {
            let p: Vec<&str> = rest.split(';').collect();
            let c = height_case(p[0].parse().unwrap_or(0), p.get(1).and_then(|x| x.parse().ok()).unwrap_or(4096));
            return Outcome { cex: c.map(|(o, e)| Cex { input: r.clone(), observed: o, expected: e }), cases: 1 };
        }
    }
    if let Some(r) = replay {
        // node priorities are drawn from a process-wide generator: replay the history repeatedly (other priorities each time)
        let ops = dec(&r);
        let c = (0..500).find_map(|_| exec(&ops, heap_only)).map(|(o, e)| Cex { input: r.clone(), observed: o, expected: e });
        return Outcome { cex: c, cases: 1 };
    }
    let mut rng = Lcg(seed ^ 0xc03);
    let mut cases = 0;
    if heap_only {
        // height clause: the priorities must be random enough to balance the tree under the orders that degenerate a plain search tree
        let n = if std::env::var("VERIF_TIER").map(|t| t == "thorough").unwrap_or(false) { 1_000_000 } else { 100_000 };
        for family in 0..5u64 {
            cases += 1;
            if let Some((o, e)) = height_case(family, n) {
                return Outcome { cex: Some(Cex { input: format!("height;{};{}", family, n), observed: o, expected: e }), cases };
            }
        }
        cases += 1;
        if let Some((o, e)) = height_case(5, 2000) {
            return Outcome { cex: Some(Cex { input: "height;5;2000".into(), observed: o, expected: e }), cases };
        }
        let (kmax, m) = if n >= 1_000_000 { (19u64, 384usize) } else { (16u64, 384usize) };
        let rr: &[(u64, usize)] = if n >= 1_000_000 { &[(10, 1000), (13, 500), (12, 1000), (16, 100)] } else { &[(10, 1000), (13, 500)] };
        for &(k, rounds) in rr {
            cases += 1;
            if let Some((o, e)) = height_case(200 + k, rounds) {
                return Outcome { cex: Some(Cex { input: format!("height;{};{}", 200 + k, rounds), observed: o, expected: e }), cases };
            }
        }
        for k in 1..=kmax {
            cases += 1;
            if let Some((o, e)) = height_case(100 + k, m) {
                return Outcome { cex: Some(Cex { input: format!("height;{};{}", 100 + k, m), observed: o, expected: e }), cases };
            }
        }
    }
    // deterministic family: build n elements, attach a modification to the root of the whole treap (it stays pending there),
    // then split by every prefix / take first, last, remove, insert while it is pending
    for n in 1..=7usize {
        for k in 0..=n {
            for tail in 0..4 {
                let mut ops: Vec<Op> = (0..n).map(|i| Op::Ins(if i % 2 == 0 { i } else { 0 }, 10 + i as u64)).collect();
                ops.push(Op::Mod(0, n - 1, 3, 5));
                if (n + k) % 3 == 0 { ops.push(Op::Flat(((n + k) / 3 % 2) as u64)); }
                if tail == 1 { ops.push(if k % 2 == 0 { Op::Last } else { Op::First }); }
                ops.push(match tail { 0 => Op::SplitBy(k), 1 => Op::Sum(k.min(n - 1), n - 1), 2 => Op::Rem(k), _ => Op::Ins(k, 77) });
                ops.push(Op::Mod(0, n - 1, 2, 1));
                ops.push(Op::SplitBy(n - k));
                cases += 1;
                if let Some(first) = (0..8).find_map(|_| exec(&ops, heap_only)) {
                    return Outcome { cex: Some(Cex { input: enc(&ops), observed: first.0, expected: first.1 }), cases };
                }
            }
        }
    }
    for _ in 0..3000 {
        let len = 2 + rng.below(22) as usize;
        let mut ops = Vec::new();
        for _ in 0..len {
            ops.push(match rng.below(11) {
                10 => Op::Move(rng.below(8) as usize, rng.below(8) as usize),
                8 => if rng.below(2) == 0 { Op::First } else { Op::Last },
                9 => Op::Flat(rng.below(2)),
                0 | 1 | 2 => Op::Ins(rng.below(8) as usize, rng.below(50)),
                3 => Op::Rem(rng.below(8) as usize),
                4 | 5 => Op::Mod(rng.below(8) as usize, rng.below(8) as usize, 1 + rng.below(5), rng.below(7)),
                6 => Op::Sum(rng.below(8) as usize, rng.below(8) as usize),
                _ => if rng.below(4) == 0 { Op::Rot(rng.below(8) as usize) } else { Op::SplitBy(rng.below(8) as usize) },
            });
        }
        cases += 1;
        if let Some(first) = exec(&ops, heap_only) {
            // priorities come from a process-wide generator, so a re-run of the same history sees other priorities:
            // shrink only while a re-run (a few attempts) still fails, and keep the last observed failure
            let mut best = ops.clone();
            let mut last = first;
            let mut changed = true;
            while changed {
                changed = false;
                for i in 0..best.len() {
                    let mut t = best.clone();
                    t.remove(i);
                    if let Some(f) = (0..20).find_map(|_| exec(&t, heap_only)) {
                        best = t;
                        last = f;
                        changed = true;
                        break;
                    }
                }
            }
            return Outcome { cex: Some(Cex { input: enc(&best), observed: last.0, expected: last.1 }), cases };
        }
    }
    Outcome { cex: None, cases }
}
