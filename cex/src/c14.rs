//! C14 (integer / determinism / rearrangement clauses): draws stay inside their range for adversarial raw outputs,
//! every value of a small range is reachable, equal seeds give equal streams, shuffle permutes.
//! Float clause: start <= x < end for adversarial raws; serial clauses: small-range draws have no short period, every rearrangement of a
//! short slice is reached with near-equal frequency over >= 10^5 seeds (statistical: bounded, 6-sigma tolerance).
//! input encoding: "<type>;<form>;<start>;<end>;<raw>"  |  "shuffle;<len>;<seed>"  |  "f64;range;<start bits>;<end bits>;<raw>"
//!                 |  "period;<range length>;<seed>"  |  "shufflefreq;<len>;<mode>"
use crate::{guarded, Cex, Outcome};
use rlib_rand::randomable::Randomable;
use rlib_rand::{Rand, Rng};

fn raws(len: u128) -> Vec<u64> {
    let mut v = vec![0u64, 1, u64::MAX, u64::MAX - 1, 1 << 63, (1 << 63) - 1, 1 << 53, (1 << 53) + 1, 1 << 32, (1 << 32) - 1, 0x8000_0000, 0xFFFF_FFFF_0000_0000];
    if len > 0 && len <= u64::MAX as u128 {
        let l = len as u64;
        for k in [1u64, 2, 3] {
            v.push(l.wrapping_mul(k));
            v.push(l.wrapping_mul(k).wrapping_sub(1));
            v.push(l.wrapping_mul(k).wrapping_add(1));
        }
    }
    v
}

macro_rules! check_ty {
    ($name:ident, $t:ty, $tn:expr) => {
        fn $name(form: &str, s: i128, e: i128, raw: u64) -> Option<(String, String)> {
            let (s, e) = (s as $t, e as $t);
            let r: Result<$t, String> = match form {
                "range" => guarded(|| (s..e).gen_from_u64(raw)),
                "incl" => guarded(|| (s..=e).gen_from_u64(raw)),
                "to" => guarded(|| (..e).gen_from_u64(raw)),
                "toincl" => guarded(|| (..=e).gen_from_u64(raw)),
                _ => guarded(|| (..).gen_from_u64(raw)),
            };
            let ok = match (&r, form) {
                (Ok(x), "range") => s <= *x && *x < e,
                (Ok(x), "incl") => s <= *x && *x <= e,
                (Ok(x), "to") => *x < e && *x >= 0 as $t,
                (Ok(x), "toincl") => *x <= e && *x >= 0 as $t,
                (Ok(_), _) => true,
                (Err(_), _) => false,
            };
            if ok { None } else { Some((format!("{} {} start={} end={} raw={:#x} drew {:?}", $tn, form, s, e, raw, r), "a value inside the range".to_string())) }
        }
    };
}
check_ty!(ck_i8, i8, "i8");
check_ty!(ck_u8, u8, "u8");
check_ty!(ck_i16, i16, "i16");
check_ty!(ck_u16, u16, "u16");
check_ty!(ck_i32, i32, "i32");
check_ty!(ck_u32, u32, "u32");
check_ty!(ck_i64, i64, "i64");
check_ty!(ck_u64, u64, "u64");
check_ty!(ck_isize, isize, "isize");
check_ty!(ck_usize, usize, "usize");

fn dispatch(t: &str, form: &str, s: i128, e: i128, raw: u64) -> Option<(String, String)> {
    match t {
        "i8" => ck_i8(form, s, e, raw), "u8" => ck_u8(form, s, e, raw), "i16" => ck_i16(form, s, e, raw), "u16" => ck_u16(form, s, e, raw),
        "i32" => ck_i32(form, s, e, raw), "u32" => ck_u32(form, s, e, raw), "i64" => ck_i64(form, s, e, raw), "u64" => ck_u64(form, s, e, raw),
        "isize" => ck_isize(form, s, e, raw), _ => ck_usize(form, s, e, raw),
    }
}

fn shuffle_case(len: usize, seed: u64) -> Option<(String, String)> {
    let r = guarded(|| {
        let mut a: Vec<usize> = (0..len).collect();
        let mut b = a.clone();
        let mut r1 = Rng::from_seed(seed);
        let mut r2 = Rng::from_seed(seed);
        r1.shuffle(&mut a);
        r2.shuffle(&mut b);
        (a, b, r1.next_raw(), r2.next_raw())
    });
    match r {
        Err(e) => Some((format!("shuffle of a slice of length {} (seed {}): {}", len, seed, e), "a rearrangement".into())),
        Ok((a, b, x, y)) => {
            let mut s = a.clone();
            s.sort();
            if s != (0..len).collect::<Vec<_>>() { return Some((format!("shuffle gave {:?}", a), "a rearrangement of 0..len".into())); }
            if a != b || x != y { return Some(("equal seeds gave different streams".into(), "equal streams".into())); }
            None
        }
    }
}

fn float_case(s: f64, e: f64, raw: u64) -> Option<(String, String)> {
    match guarded(|| (s..e).gen_from_u64(raw)) {
        Ok(x) if s <= x && x < e => None,
        r => Some((format!("f64 range start={:e} ({:#x}) end={:e} ({:#x}) raw={:#x} drew {:?}", s, s.to_bits(), e, e.to_bits(), raw, r), "start <= x < end".into())),
    }
}

const PERIOD_DRAWS: usize = 512;
const PERIOD_MAX: usize = 64;
/// consecutive draws from 0..len started at `seed`: no period p <= 64 over 512 draws
fn period_case(len: u32, seed: u64) -> Option<(String, String)> {
    let d = match guarded(|| { let mut r = Rng::from_seed(seed); (0..PERIOD_DRAWS).map(|_| r.next(0..len)).collect::<Vec<u32>>() }) {
        Ok(d) => d,
        Err(e) => return Some((format!("draws from 0..{} (seed {}): {}", len, seed, e), "no panic".into())),
    };
    for p in 1..=PERIOD_MAX {
        if (0..PERIOD_DRAWS - p).all(|i| d[i] == d[i + p]) {
            return Some((format!("{} consecutive draws from 0..{} (seed {}) repeat with period {}: {:?} ...", PERIOD_DRAWS, len, seed, p, &d[..(2 * p + 2).min(24)]), "no period <= 64".into()));
        }
    }
    None
}

const FREQ_SEEDS: u64 = 120_000;
/// every rearrangement of 0..len is produced by some of 120 000 seeds, each with a frequency within 6 sigma of the uniform expectation
fn shuffle_freq_case(len: usize, mode: u64) -> Option<(String, String)> {
    let mut cnt: std::collections::BTreeMap<Vec<usize>, u64> = std::collections::BTreeMap::new();
    for k in 0..FREQ_SEEDS {
        let seed = match mode { 0 => k, 1 => k.wrapping_mul(0x9E3779B97F4A7C15), _ => k << 20 };
        let mut r = Rng::from_seed(seed);
        let mut a: Vec<usize> = (0..len).collect();
        r.shuffle(&mut a);
        *cnt.entry(a).or_insert(0) += 1;
    }
    let f: u64 = (1..=len as u64).product();
    let exp = FREQ_SEEDS as f64 / f as f64;
    let tol = 6.0 * exp.sqrt() + 1.0;
    if (cnt.len() as u64) < f {
        // name one rearrangement that no seed produced
        let mut a: Vec<usize> = (0..len).collect();
        let mut missing = None;
        permute(&mut a, 0, &mut |p| { if missing.is_none() && !cnt.contains_key(p) { missing = Some(p.to_vec()); } });
        return Some((format!("shuffle of 0..{}: only {} of {} rearrangements are produced by {} seeds (mode {}); e.g. {:?} never", len, cnt.len(), f, FREQ_SEEDS, mode, missing.unwrap_or_default()), "every rearrangement reached".into()));
    }
    for (p, c) in &cnt {
        if (*c as f64 - exp).abs() > tol {
            return Some((format!("shuffle of 0..{}: {:?} produced by {} of {} seeds (mode {}), expected {:.0} +- {:.0}", len, p, c, FREQ_SEEDS, mode, exp, tol), "near-equal frequency".into()));
        }
    }
    None
}
fn permute(a: &mut Vec<usize>, k: usize, f: &mut dyn FnMut(&[usize])) {
    if k == a.len() { f(a); return; }
    for i in k..a.len() { a.swap(k, i); permute(a, k + 1, f); a.swap(k, i); }
}

pub fn run(seed: u64, replay: Option<String>) -> Outcome {
    if let Some(r) = replay {
        let p: Vec<&str> = r.split(';').collect();
        let c = if p[0] == "f64" { float_case(f64::from_bits(p[2].parse().unwrap_or(0)), f64::from_bits(p[3].parse().unwrap_or(0)), p[4].parse().unwrap_or(0)) }
                else if p[0] == "period" { period_case(p[1].parse().unwrap_or(4), p[2].parse().unwrap_or(0)) }
                else if p[0] == "shufflefreq" { shuffle_freq_case(p[1].parse().unwrap_or(4), p[2].parse().unwrap_or(0)) }
                else if p[0] == "shuffle" { shuffle_case(p[1].parse().unwrap_or(0), p[2].parse().unwrap_or(0)) }
                else { dispatch(p[0], p[1], p[2].parse().unwrap_or(0), p[3].parse().unwrap_or(1), p[4].parse().unwrap_or(0)) };
        return Outcome { cex: c.map(|(o, e)| Cex { input: r.clone(), observed: o, expected: e }), cases: 1 };
    }
    let mut cases = 0u64;
    let types: [(&str, i128, i128); 10] = [("i8", i8::MIN as i128, i8::MAX as i128), ("u8", 0, u8::MAX as i128), ("i16", i16::MIN as i128, i16::MAX as i128), ("u16", 0, u16::MAX as i128),
        ("i32", i32::MIN as i128, i32::MAX as i128), ("u32", 0, u32::MAX as i128), ("i64", i64::MIN as i128, i64::MAX as i128), ("u64", 0, u64::MAX as i128),
        ("isize", isize::MIN as i128, isize::MAX as i128), ("usize", 0, usize::MAX as i128)];
    for (t, lo, hi) in types {
        // boundary starts and lengths
        let mut starts = vec![lo, lo + 1, -1, 0, 1, hi / 2, hi - 300, 1i128 << 32, (1i128 << 32) - 5, 1i128 << 40, 1_000_000_000_000];
        starts.retain(|s| *s >= lo && *s < hi);
        for &s in &starts {
            for len in [1i128, 2, 3, 7, 10, 255, 256, 257, 1 << 16, (1 << 32) - 1, 1 << 32, (1 << 32) + 1, hi - lo] {
                let e = s + len;
                if e > hi { continue; }
                for raw in raws(len as u128) {
                    for form in ["range", "incl"] {
                        cases += 1;
                        if let Some((o, ex)) = dispatch(t, form, s, e, raw) {
                            return Outcome { cex: Some(Cex { input: format!("{};{};{};{};{}", t, form, s, e, raw), observed: o, expected: ex }), cases };
                        }
                    }
                }
                // reachability of every value of a small range
                if len <= 10 {
                    for v in s..e {
                        let hit = (0..4 * len as u64 + 4).chain(raws(len as u128)).any(|raw| {
                            let d = dispatch(t, "range", s, e, raw);
                            d.is_none() && match t { _ => true } && draw_eq(t, s, e, raw, v)
                        });
                        cases += 1;
                        if !hit {
                            return Outcome { cex: Some(Cex { input: format!("{};range;{};{};0", t, s, e), observed: format!("value {} of {}..{} ({}) is never drawn", v, s, e, t), expected: "every value of a small range is reachable".into() }), cases };
                        }
                    }
                }
            }
        }
        for e in [1i128, 2, 100, hi] {
            for raw in raws(e as u128) {
                for form in ["to", "toincl", "full"] {
                    cases += 1;
                    if let Some((o, ex)) = dispatch(t, form, 0, e, raw) {
                        return Outcome { cex: Some(Cex { input: format!("{};{};0;{};{}", t, form, e, raw), observed: o, expected: ex }), cases };
                    }
                }
            }
        }
    }
    // ---- half-open float ranges: adversarial raws (top of the u64 range, around 2^53..2^64) x boundary ranges
    let ulp2 = f64::from_bits(2.0f64.to_bits() - 1);
    let franges: [(f64, f64); 14] = [(0.0, 1.0), (10.0, 15.0), (-10.0, 15.0), (-15.0, -10.0), (1.0, 1.0 + f64::EPSILON), (-ulp2, ulp2), (1.0, 2.0), (-f64::MAX, f64::MAX),
        (0.0, f64::MAX), (0.0, f64::MIN_POSITIVE), (0.0, 5e-324), (1e300, f64::MAX), (-1e-300, 1e-300), (0.1, 0.3)];
    let mut fraws: Vec<u64> = raws(0);
    for k in 0..4200u64 { fraws.push(u64::MAX - k); }
    for sh in 50..64 { fraws.push(1u64 << sh); fraws.push((1u64 << sh) + 1); fraws.push((1u64 << sh) - 1); }
    for (s, e) in franges {
        for &raw in &fraws {
            cases += 1;
            if let Some((o, ex)) = float_case(s, e, raw) {
                return Outcome { cex: Some(Cex { input: format!("f64;range;{};{};{}", s.to_bits(), e.to_bits(), raw), observed: o, expected: ex }), cases };
            }
        }
    }
    // ---- serial structure of small-range draws
    for sd in [42u64, 0, 1, 12345, seed, seed.wrapping_mul(0x9E3779B97F4A7C15)] {
        for len in [2u32, 4, 8, 16, 3, 5, 6, 10, 256] {
            cases += 1;
            if let Some((o, ex)) = period_case(len, sd) {
                return Outcome { cex: Some(Cex { input: format!("period;{};{}", len, sd), observed: o, expected: ex }), cases };
            }
        }
    }
    // ---- which rearrangements a shuffle can produce, and how often
    for len in 2..=6usize {
        for mode in 0..3u64 {
            cases += FREQ_SEEDS;
            if let Some((o, ex)) = shuffle_freq_case(len, mode) {
                return Outcome { cex: Some(Cex { input: format!("shufflefreq;{};{}", len, mode), observed: o, expected: ex }), cases };
            }
        }
    }
    for len in 0..=6usize {
        for sd in 0..200u64 {
            cases += 1;
            if let Some((o, e)) = shuffle_case(len, sd.wrapping_mul(0x9E3779B97F4A7C15) ^ seed) {
                return Outcome { cex: Some(Cex { input: format!("shuffle;{};{}", len, sd.wrapping_mul(0x9E3779B97F4A7C15) ^ seed), observed: o, expected: e }), cases };
            }
        }
    }
    Outcome { cex: None, cases }
}

fn draw_eq(t: &str, s: i128, e: i128, raw: u64, v: i128) -> bool {
    let r: Result<i128, String> = match t {
        "i8" => guarded(|| (s as i8..e as i8).gen_from_u64(raw) as i128), "u8" => guarded(|| (s as u8..e as u8).gen_from_u64(raw) as i128),
        "i16" => guarded(|| (s as i16..e as i16).gen_from_u64(raw) as i128), "u16" => guarded(|| (s as u16..e as u16).gen_from_u64(raw) as i128),
        "i32" => guarded(|| (s as i32..e as i32).gen_from_u64(raw) as i128), "u32" => guarded(|| (s as u32..e as u32).gen_from_u64(raw) as i128),
        "i64" => guarded(|| (s as i64..e as i64).gen_from_u64(raw) as i128), "u64" => guarded(|| (s as u64..e as u64).gen_from_u64(raw) as i128),
        "isize" => guarded(|| (s as isize..e as isize).gen_from_u64(raw) as i128), _ => guarded(|| (s as usize..e as usize).gen_from_u64(raw) as i128),
    };
    r == Ok(v)
}
