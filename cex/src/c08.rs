//! C08: Reader results are a function of the input bytes alone (all chunkings, Interrupted placements).
//! input encoding: "<script>;<hex bytes>;<schedule>"  script = ops L(line) E(is_eof) S(string token) I(i32 token) C(char) B/U/W/Q (u8/u32/u64/u128 token) H/X (i64/i128 token) A(read_lines)
//! schedule = comma list of chunk sizes and `i` (one Interrupted error); the rest is delivered in one read.
use crate::{guarded, Cex, Outcome};
use rlib_io::Reader;
use std::io::{Error, ErrorKind, Read};

struct Src {
    data: Vec<u8>,
    pos: usize,
    sched: Vec<Option<usize>>, // None = interrupted
    k: usize,
}
impl Read for Src {
    fn read(&mut self, buf: &mut [u8]) -> std::io::Result<usize> {
        let step = if self.k < self.sched.len() { self.sched[self.k] } else { Some(usize::MAX) };
        self.k += 1;
        match step {
            None => Err(Error::new(ErrorKind::Interrupted, "interrupted")),
            Some(n) => {
                let n = n.min(buf.len()).min(self.data.len() - self.pos);
                buf[..n].copy_from_slice(&self.data[self.pos..self.pos + n]);
                self.pos += n;
                Ok(n)
            }
        }
    }
}

fn is_ws(b: u8) -> bool {
    b.is_ascii_whitespace()
}

/// reference semantics over the byte string
/// a digit n in a script reads one n-tuple (`impl Readable for (A, .., )`, arity 2..8) whose component types are the letters below;
/// by the property it must equal reading the components one after the other
fn tuple_ops(op: char) -> Option<&'static str> {
    match op {
        '2' => Some("IS"),
        '3' => Some("SIB"),
        '4' => Some("ICBH"),
        '5' => Some("BICUH"),
        // read_vec::<i32>(1) / (2) / (3): by the property the same as that many single reads
        'v' => Some("I"),
        'w' => Some("II"),
        'x' => Some("III"),
        '6' => Some("ISBHWQ"),
        '7' => Some("SIBUWHX"),
        '8' => Some("ISBUWQHX"),
        _ => None,
    }
}

fn model(script: &str, data: &[u8]) -> Option<Vec<String>> {
    let mut pos = 0usize;
    let mut out = Vec::new();
    let expanded: String = script.chars().map(|c| tuple_ops(c).map(|s| s.to_string()).unwrap_or(c.to_string())).collect();
    for op in expanded.chars() {
        match op {
            'L' => {
                if pos == data.len() {
                    out.push("None".to_string());
                } else {
                    let mut e = pos;
                    while e < data.len() && data[e] != b'\n' {
                        e += 1;
                    }
                    let mut line = &data[pos..e];
                    if e < data.len() && line.last() == Some(&b'\r') {
                        line = &line[..line.len() - 1];
                    }
                    out.push(format!("Some({:?})", String::from_utf8_lossy(line)));
                    pos = if e < data.len() { e + 1 } else { e };
                }
            }
            'A' => {
                // read_lines: every remaining line
                let mut v = Vec::new();
                while pos < data.len() {
                    let mut e = pos;
                    while e < data.len() && data[e] != b'\n' {
                        e += 1;
                    }
                    let mut line = &data[pos..e];
                    if e < data.len() && line.last() == Some(&b'\r') {
                        line = &line[..line.len() - 1];
                    }
                    v.push(String::from_utf8_lossy(line).to_string());
                    pos = if e < data.len() { e + 1 } else { e };
                }
                out.push(format!("{:?}", v));
            }
            'E' => {
                while pos < data.len() && is_ws(data[pos]) {
                    pos += 1;
                }
                out.push(format!("{}", pos == data.len()));
            }
            'S' | 'I' | 'C' | 'B' | 'U' | 'W' | 'Q' | 'H' | 'X' => {
                while pos < data.len() && is_ws(data[pos]) {
                    pos += 1;
                }
                if pos == data.len() {
                    return None; // script not applicable
                }
                if op == 'C' {
                    out.push(format!("{:?}", data[pos] as char));
                    pos += 1;
                    continue;
                }
                let mut e = pos;
                while e < data.len() && !is_ws(data[e]) {
                    e += 1;
                }
                let tok = String::from_utf8_lossy(&data[pos..e]).to_string();
                if op != 'S' && (tok.starts_with('+') || tok == "-0" || (tok.len() > 1 && tok.trim_start_matches('-').starts_with('0'))) {
                    return None;
                }
                if op == 'I' {
                    let v: i32 = tok.parse().ok()?;
                    out.push(format!("{}", v));
                } else if op == 'B' {
                    let v: u8 = tok.parse().ok()?;
                    out.push(format!("{}", v));
                } else if op == 'U' {
                    let v: u32 = tok.parse().ok()?;
                    out.push(format!("{}", v));
                } else if op == 'W' {
                    let v: u64 = tok.parse().ok()?;
                    out.push(format!("{}", v));
                } else if op == 'Q' {
                    let v: u128 = tok.parse().ok()?;
                    out.push(format!("{}", v));
                } else if op == 'H' {
                    let v: i64 = tok.parse().ok()?;
                    out.push(format!("{}", v));
                } else if op == 'X' {
                    let v: i128 = tok.parse().ok()?;
                    out.push(format!("{}", v));
                } else {
                    out.push(format!("{:?}", tok));
                }
                pos = e;
            }
            _ => return None,
        }
    }
    Some(out)
}

fn real(script: &str, data: &[u8], sched: &[Option<usize>]) -> Result<Vec<String>, String> {
    let src = Src { data: data.to_vec(), pos: 0, sched: sched.to_vec(), k: 0 };
    guarded(move || {
        let mut r = Reader::new(Box::new(src));
        let mut out = Vec::new();
        for op in script.chars() {
            match op {
                'L' => out.push(match r.read_line() {
                    None => "None".to_string(),
                    Some(s) => format!("Some({:?})", s),
                }),
                'A' => out.push(format!("{:?}", r.read_lines())),
                'E' => out.push(format!("{}", r.is_eof())),
                'S' => out.push(format!("{:?}", r.read::<String>())),
                'I' => out.push(format!("{}", r.read::<i32>())),
                'B' => out.push(format!("{}", r.read::<u8>())),
                'U' => out.push(format!("{}", r.read::<u32>())),
                'W' => out.push(format!("{}", r.read::<u64>())),
                'Q' => out.push(format!("{}", r.read::<u128>())),
                'H' => out.push(format!("{}", r.read::<i64>())),
                'X' => out.push(format!("{}", r.read::<i128>())),
                'C' => out.push(format!("{:?}", r.read::<char>())),
                '2' => { let t: (i32, String) = r.read(); out.push(format!("{}", t.0)); out.push(format!("{:?}", t.1)); }
                '3' => { let t: (String, i32, u8) = r.read(); out.push(format!("{:?}", t.0)); out.push(format!("{}", t.1)); out.push(format!("{}", t.2)); }
                'v' | 'w' | 'x' => { let n = match op { 'v' => 1, 'w' => 2, _ => 3 }; for e in r.read_vec::<i32>(n) { out.push(format!("{}", e)); } }
                '4' => { let t: (i32, char, u8, i64) = r.read(); out.push(format!("{}", t.0)); out.push(format!("{:?}", t.1)); out.push(format!("{}", t.2)); out.push(format!("{}", t.3)); }
                '5' => { let t: (u8, i32, char, u32, i64) = r.read();
                    out.push(format!("{}", t.0)); out.push(format!("{}", t.1)); out.push(format!("{:?}", t.2)); out.push(format!("{}", t.3)); out.push(format!("{}", t.4)); }
                '6' => { let t: (i32, String, u8, i64, u64, u128) = r.read();
                    out.push(format!("{}", t.0)); out.push(format!("{:?}", t.1)); out.push(format!("{}", t.2)); out.push(format!("{}", t.3)); out.push(format!("{}", t.4)); out.push(format!("{}", t.5)); }
                '7' => { let t: (String, i32, u8, u32, u64, i64, i128) = r.read();
                    out.push(format!("{:?}", t.0)); out.push(format!("{}", t.1)); out.push(format!("{}", t.2)); out.push(format!("{}", t.3)); out.push(format!("{}", t.4)); out.push(format!("{}", t.5));
                    out.push(format!("{}", t.6)); }
                '8' => { let t: (i32, String, u8, u32, u64, u128, i64, i128) = r.read();
                    out.push(format!("{}", t.0)); out.push(format!("{:?}", t.1)); out.push(format!("{}", t.2)); out.push(format!("{}", t.3)); out.push(format!("{}", t.4)); out.push(format!("{}", t.5));
                    out.push(format!("{}", t.6)); out.push(format!("{}", t.7)); }
                _ => {}
            }
        }
        out
    })
}

fn hex(d: &[u8]) -> String {
    d.iter().map(|b| format!("{:02x}", b)).collect()
}
fn unhex(s: &str) -> Vec<u8> {
    (0..s.len() / 2).map(|i| u8::from_str_radix(&s[2 * i..2 * i + 2], 16).unwrap_or(0)).collect()
}
fn sched_str(s: &[Option<usize>]) -> String {
    s.iter().map(|x| match x { None => "i".to_string(), Some(n) => n.to_string() }).collect::<Vec<_>>().join(",")
}
fn parse_sched(s: &str) -> Vec<Option<usize>> {
    s.split(',').filter(|x| !x.is_empty()).map(|x| if x == "i" { None } else { Some(x.parse().unwrap_or(1)) }).collect()
}

fn check(script: &str, data: &[u8], sched: &[Option<usize>]) -> Option<Cex> {
    let want = model(script, data)?;
    let got = real(script, data, sched);
    let ok = match &got {
        Ok(v) => *v == want,
        Err(_) => false,
    };
    if ok {
        return None;
    }
    Some(Cex {
        input: format!("{};{};{}", script, hex(data), sched_str(sched)),
        observed: match got { Ok(v) => format!("{:?}", v), Err(e) => e },
        expected: format!("{:?} (the value determined by the input bytes {:?} alone)", want, String::from_utf8_lossy(data)),
    })
}

pub fn run(_seed: u64, replay: Option<String>) -> Outcome {
    if let Some(r) = replay {
        let p: Vec<&str> = r.split(';').collect();
        if p.len() != 3 {
            return Outcome { cex: None, cases: 0 };
        }
        return Outcome { cex: check(p[0], &unhex(p[1]), &parse_sched(p[2])), cases: 1 };
    }
    let alpha = [b'\n', b'\r', b'7', b' ', b'-'];
    let scripts = ["vLL", "wLL", "vEL", "vvL", "LLLLL", "ELLLL", "LELEL", "SESES", "IEIEI", "CCECC", "EEL", "SLL", "ILL", "A", "LA", "SA", "UEUEU", "BWL", "WQE", "HXH", "UL", "QQ"];
    let mut cases = 0u64;
    for len in 0..=4usize {
        let total = alpha.len().pow(len as u32);
        for code in 0..total {
            let mut c = code;
            let mut data = Vec::new();
            for _ in 0..len {
                data.push(alpha[c % alpha.len()]);
                c /= alpha.len();
            }
            // all compositions of len into chunks, each chunk optionally preceded by an interrupt
            let ncomp = if len == 0 { 1 } else { 1usize << (len - 1) };
            for comp in 0..ncomp {
                let mut chunks = Vec::new();
                let mut cur = 1;
                for i in 0..len.saturating_sub(1) {
                    if comp >> i & 1 == 1 {
                        chunks.push(cur);
                        cur = 1;
                    } else {
                        cur += 1;
                    }
                }
                if len > 0 {
                    chunks.push(cur);
                }
                let slots = chunks.len() + 1; // an interrupt may precede each chunk and the final EOF read
                for imask in 0..(1usize << slots.min(4)) {
                    let mut sched = Vec::new();
                    for (i, ch) in chunks.iter().enumerate() {
                        if i < 4 && imask >> i & 1 == 1 {
                            sched.push(None);
                        }
                        sched.push(Some(*ch));
                    }
                    if chunks.len() < 4 && imask >> chunks.len() & 1 == 1 {
                        sched.push(None);
                    }
                    for s in scripts.iter() {
                        cases += 1;
                        if let Some(c) = check(s, &data, &sched) {
                            return Outcome { cex: Some(c), cases };
                        }
                    }
                }
            }
        }
    }
    // buffer-boundary case: a token and a CRLF straddling the 64 KiB internal buffer
    for pad in [65534usize, 65535, 65536] {
        let mut data = vec![b' '; pad];
        data.extend_from_slice(b"-123\r\nab\r\n");
        for sched in [vec![], vec![Some(pad + 1), None, Some(1)], vec![Some(pad + 2)], vec![Some(pad + 5), Some(1)]] {
            cases += 1;
            if let Some(c) = check("ILL", &data, &sched) {
                return Outcome { cex: Some(c), cases };
            }
        }
    }
    // integers of every width at their extreme values: every two-way split of the stream, one byte per read, an interrupt at the split
    let ext: &[(&str, &str)] = &[("BUWQHX", "255 4294967295 18446744073709551615 340282366920938463463374607431768211455 -9223372036854775808 -170141183460469231731687303715884105728\n"),
        ("BUWQHX", "0 0 0 0 9223372036854775807 170141183460469231731687303715884105727"), ("IHXE", "-2147483648\r\n9223372036854775807\t-1 "), ("WUB", "10000000000 65536 7"),
        // tuples of every arity, distinct components (an out-of-order or dropped component shows), followed by a line that must stay unread
        ("2L", "-7 ab\nrest"), ("3E", "ab\t-2147483648 255 "), ("4L", "1 x 2 -3\r\nrest\n"), ("5L", "1 -2 x 4 -5\nrest"), ("6E", "1 x 2 -3 4 5"),
        ("7L", "x -1 2 3 4 -5 -6\nrest"), ("8L", "-1 x 2 3 4 5 -6 -7\nrest\n"), ("82", "1 a 2 3 4 5 6 7 8 b"),
        // vectors followed by line reads; two tuples with a char component in a row (stale buffer contents after a short read)
        ("BxLL", "3\n10 20 30\nabc\n"), ("xLE", "-1 2 -3\r\n\r\n"), ("44E", "1 a 2 3\n4 b 5 6\n"), ("55L", "1 -2 x 4 -5\n6 7 y 8 9\nrest")];
    for (script, text) in ext {
        let data = text.as_bytes().to_vec();
        let mut scheds: Vec<Vec<Option<usize>>> = vec![vec![], vec![Some(1); data.len() + 1]];
        for cut in 1..data.len() {
            scheds.push(vec![Some(cut)]);
            scheds.push(vec![Some(cut), None, None, Some(1)]);
        }
        if data.len() <= 40 {
            // every three-way split (a later read shorter than an earlier one leaves stale bytes behind the window)
            for c1 in 1..data.len() { for c2 in c1 + 1..data.len() { scheds.push(vec![Some(c1), Some(c2 - c1)]); } }
        }
        for sched in scheds {
            cases += 1;
            if let Some(c) = check(script, &data, &sched) {
                return Outcome { cex: Some(c), cases };
            }
        }
    }
    Outcome { cex: None, cases }
}
