//! C05: DSU connectivity / sizes / representatives against a naive partition; depth bound via Debug rendering.
//! input encoding: "n;op,op,..." with op = u<a>-<b> | r<n> | k (clone) | K<m> (clone_from into a DSU of size m)
use crate::{guarded, Cex, Lcg, Outcome};
use rlib_dsu::DSU;

fn parse_fields(dbg: &str) -> (Vec<usize>, Vec<usize>) {
    // DSU { p: [..], sz: [..] }
    let grab = |key: &str| -> Vec<usize> {
        let i = dbg.find(key).map(|i| i + key.len()).unwrap_or(0);
        let j = dbg[i..].find(']').map(|j| i + j).unwrap_or(i);
        dbg[i..j].split(',').filter_map(|x| x.trim().parse().ok()).collect()
    };
    (grab("p: ["), grab("sz: ["))
}

fn run_ops(n: usize, ops: &[(char, usize, usize)], every_step: bool) -> Option<(String, String)> {
    let r = guarded(|| {
        let mut d = DSU::new(n);
        let mut comp: Vec<usize> = (0..n).collect();
        let mut cur_n = n;
        for (oi, &(op, a, b)) in ops.iter().enumerate() {
            match op {
                'u' => {
                    let want = comp[a] != comp[b];
                    let got = d.un(a, b);
                    if want {
                        let (ca, cb) = (comp[a], comp[b]);
                        for c in comp.iter_mut() {
                            if *c == cb {
                                *c = ca;
                            }
                        }
                    }
                    if got != want {
                        return Some((format!("un({},{}) returned {}", a, b, got), format!("{}", want)));
                    }
                }
                'r' => {
                    d.reset(a);
                    cur_n = a;
                    comp = (0..a).collect();
                }
                'k' => {
                    // clone: the copy is an independent structure with the same partition; continue on the copy and
                    // disturb the original, which must not leak into the copy
                    let mut orig = std::mem::replace(&mut d, DSU::new(0));
                    d = orig.clone();
                    if cur_n >= 2 {
                        orig.un(0, cur_n - 1);
                        orig.reset(1);
                    }
                }
                'K' => {
                    // the assigning form of clone: the destination is an older structure of another size with unions of its own
                    let mut dst = DSU::new(a);
                    if a >= 2 {
                        dst.un(0, a - 1);
                    }
                    dst.clone_from(&d);
                    let mut orig = std::mem::replace(&mut d, dst);
                    if cur_n >= 2 {
                        orig.un(0, cur_n - 1);
                    }
                }
                _ => {}
            }
            // lookups compress paths: observing after every step would never let the forest grow deep, so there is a mode
            // that only observes after the last operation (sizes first, from the highest index down)
            if !every_step && oi + 1 < ops.len() {
                continue;
            }
            for x in (0..cur_n).rev() {
                let sz = comp.iter().filter(|&&c| c == comp[x]).count();
                if d.size(x) != sz {
                    return Some((format!("size({}) = {}", x, d.size(x)), format!("{}", sz)));
                }
                let px = d.par(x);
                if comp[px] != comp[x] {
                    return Some((format!("par({}) = {} is not a member of the component", x, px), "a member".into()));
                }
                for y in 0..cur_n {
                    let got = d.check(x, y);
                    if got != (comp[x] == comp[y]) {
                        return Some((format!("check({},{}) = {}", x, y, got), format!("{}", comp[x] == comp[y])));
                    }
                    if (comp[x] == comp[y]) != (d.par(x) == d.par(y)) {
                        return Some((format!("par({}) vs par({})", x, y), "equal exactly for connected elements".into()));
                    }
                }
            }
        }
        None
    });
    match r {
        Ok(x) => x,
        Err(e) => Some((e, "no panic".into())),
    }
}

/// depth check on union-only histories (no lookups in between, so no compression helps)
fn depth_violation(n: usize, ops: &[(usize, usize)]) -> Option<(String, String)> {
    let mut d = DSU::new(n);
    for &(a, b) in ops {
        // unions call par internally; use a clone-free adversarial order: roots only
        d.un(a, b);
    }
    let (p, sz) = parse_fields(&format!("{:?}", d));
    for v in 0..n {
        let (mut x, mut depth) = (v, 0u32);
        while p[x] != x {
            x = p[x];
            depth += 1;
            if depth > 64 {
                break;
            }
        }
        if depth <= 64 && (1u64 << depth) > sz[x] as u64 {
            return Some((format!("element {} has depth {} in a component of size {}", v, depth, sz[x]), "depth <= log2(size)".into()));
        }
    }
    None
}

fn enc(n: usize, ops: &[(char, usize, usize)]) -> String {
    format!("{};{}", n, ops.iter().map(|(o, a, b)| format!("{}{}-{}", o, a, b)).collect::<Vec<_>>().join(","))
}

pub fn run(seed: u64, replay: Option<String>) -> Outcome {
    if let Some(r) = replay {
        let p: Vec<&str> = r.split(';').collect();
        let n: usize = p[0].parse().unwrap_or(1);
        let ops: Vec<(char, usize, usize)> = p.get(1).unwrap_or(&"").split(',').filter(|x| !x.is_empty()).map(|o| {
            let c = o.chars().next().unwrap();
            let ab: Vec<usize> = o[1..].split('-').map(|x| x.parse().unwrap_or(0)).collect();
            (c, ab[0], *ab.get(1).unwrap_or(&0))
        }).collect();
        if p.get(2) == Some(&"depth") {
            let u: Vec<(usize, usize)> = ops.iter().map(|x| (x.1, x.2)).collect();
            let c = depth_violation(n, &u).map(|(o, e)| Cex { input: r.clone(), observed: o, expected: e });
            return Outcome { cex: c, cases: 1 };
        }
        let c = (run_ops(n, &ops, true).or_else(|| run_ops(n, &ops, false))).map(|(o, e)| Cex { input: r.clone(), observed: o, expected: e });
        return Outcome { cex: c, cases: 1 };
    }
    let mut cases = 0;
    // exhaustive: n = 4, all union sequences of length <= 3
    let n = 4;
    let pairs: Vec<(usize, usize)> = (0..n).flat_map(|a| (0..n).map(move |b| (a, b))).collect();
    for len in 1..=3 {
        let total = pairs.len().pow(len as u32);
        for code in 0..total {
            let mut c = code;
            let mut ops = Vec::new();
            for _ in 0..len {
                let (a, b) = pairs[c % pairs.len()];
                c /= pairs.len();
                ops.push(('u', a, b));
            }
            cases += 1;
            if let Some((o, e)) = run_ops(n, &ops, true).or_else(|| run_ops(n, &ops, false)) {
                return Outcome { cex: Some(Cex { input: enc(n, &ops), observed: o, expected: e }), cases };
            }
        }
    }
    // clone / clone_from in the middle of a history: every destination size, unions before and after
    for n in 2..=5usize {
        for m in 0..=6usize {
            for which in ['k', 'K'] {
                let mut ops: Vec<(char, usize, usize)> = vec![('u', 0, 1)];
                if n >= 4 { ops.push(('u', 2, 3)); }
                ops.push((which, m, 0));
                ops.push(('u', 1, n - 1));
                ops.push(('u', 0, n / 2));
                cases += 1;
                if let Some((o, e)) = run_ops(n, &ops, true).or_else(|| run_ops(n, &ops, false)) {
                    return Outcome { cex: Some(Cex { input: enc(n, &ops), observed: o, expected: e }), cases };
                }
            }
        }
    }
    // random histories with resets, and depth on union-only histories
    let mut rng = Lcg(seed ^ 0x5eed);
    for _ in 0..400 {
        let n = 2 + rng.below(7) as usize;
        let mut cur = n;
        let mut ops = Vec::new();
        for _ in 0..10 {
            if rng.below(10) == 0 {
                ops.push(('k', 0, 0));
            } else if rng.below(10) == 0 {
                ops.push(('K', [cur, cur + 3, cur.saturating_sub(1), 0][rng.below(4) as usize], 0));
            } else if rng.below(8) == 0 {
                cur = 1 + rng.below(8) as usize;
                ops.push(('r', cur, 0));
            } else {
                ops.push(('u', rng.below(cur as u64) as usize, rng.below(cur as u64) as usize));
            }
        }
        cases += 1;
        if let Some((o, e)) = run_ops(n, &ops, true).or_else(|| run_ops(n, &ops, false)) {
            return Outcome { cex: Some(Cex { input: enc(n, &ops), observed: o, expected: e }), cases };
        }
    }
    // binomial trees built by unions of representatives (deep forests), observed only at the end
    for k in 1..=5usize {
        let n = 1 << k;
        for variant in 0..4 {
            let mut ops: Vec<(char, usize, usize)> = Vec::new();
            let mut step = 1;
            while step < n {
                let mut i = 0;
                while i + step < n {
                    let (a, b) = if variant % 2 == 0 { (i, i + step) } else { (i + step, i) };
                    // variant >= 2: name the components through their last element instead of the first
                    let (a, b) = if variant >= 2 { (a + step - 1, b + step - 1) } else { (a, b) };
                    ops.push(('u', a.min(n - 1), b.min(n - 1)));
                    i += 2 * step;
                }
                step *= 2;
            }
            cases += 1;
            if let Some((o, e)) = run_ops(n, &ops, false) {
                return Outcome { cex: Some(Cex { input: enc(n, &ops), observed: o, expected: e }), cases };
            }
        }
    }
    for _ in 0..400 {
        let n = 2 + rng.below(15) as usize;
        let mut u = Vec::new();
        for _ in 0..(2 * n) {
            u.push((rng.below(n as u64) as usize, rng.below(n as u64) as usize));
        }
        cases += 1;
        if let Some((o, e)) = depth_violation(n, &u) {
            let ops: Vec<(char, usize, usize)> = u.iter().map(|&(a, b)| ('u', a, b)).collect();
            return Outcome { cex: Some(Cex { input: enc(n, &ops) + ";depth", observed: o, expected: e }), cases };
        }
    }
    // binomial-tree worst case: merge equal-size components root-to-root
    for k in 1..=6usize {
        let n = 1 << k;
        let mut u = Vec::new();
        let mut step = 1;
        while step < n {
            let mut i = 0;
            while i + step < n {
                u.push((i, i + step));
                i += 2 * step;
            }
            step *= 2;
        }
        for variant in 0..2 {
            let uu: Vec<(usize, usize)> = if variant == 0 { u.clone() } else { u.iter().map(|&(a, b)| (b, a)).collect() };
            cases += 1;
            if let Some((o, e)) = depth_violation(n, &uu) {
                let ops: Vec<(char, usize, usize)> = uu.iter().map(|&(a, b)| ('u', a, b)).collect();
                return Outcome { cex: Some(Cex { input: enc(n, &ops) + ";depth", observed: o, expected: e }), cases };
            }
        }
    }
    Outcome { cex: None, cases }
}
