//! C13: sieve tables against trial division. input encoding: "<N>"
use crate::{guarded, Cex, Outcome};
use rlib_sieve::Sieve;

fn lpf(n: i32) -> i32 { let mut d = 2; while d * d <= n { if n % d == 0 { return d; } d += 1; } n }

fn check(nn: usize) -> Option<Cex> {
    let r = guarded(|| {
        let s = Sieve::new(nn);
        let mut primes = Vec::new();
        for n in 0..=nn as i32 {
            let p = n >= 2 && lpf(n) == n;
            if s.is_prime(n) != p { return Some((format!("is_prime({}) = {}", n, s.is_prime(n)), format!("{}", p))); }
            if p { primes.push(n); }
            if n >= 2 && s.min_prime(n) != lpf(n) { return Some((format!("min_prime({}) = {}", n, s.min_prime(n)), format!("{}", lpf(n)))); }
            if n >= 1 {
                let got: Vec<(i32, i32)> = s.factorize(n).collect();
                let mut want = Vec::new(); let mut m = n;
                while m > 1 { let p = lpf(m); let mut c = 0; while m % p == 0 { m /= p; c += 1; } want.push((p, c)); }
                if got != want { return Some((format!("factorize({}) = {:?}", n, got), format!("{:?}", want))); }
            }
        }
        if *s.primes() != primes { return Some((format!("primes() = {:?}", s.primes()), format!("{:?}", primes))); }
        None
    });
    let x = match r { Ok(x) => x, Err(e) => Some((e, "no panic".into())) };
    x.map(|(o, e)| Cex { input: format!("{}", nn), observed: format!("limit {}: {}", nn, o), expected: e })
}

/// a large limit, element by element against an independent sieve of Eratosthenes (least prime factors), every factorisation included
fn check_big(nn: usize) -> Option<Cex> {
    let mut spf = vec![0u32; nn + 1];
    for i in 2..=nn { if spf[i] == 0 { let mut j = i; while j <= nn { if spf[j] == 0 { spf[j] = i as u32; } j += i; } } }
    let r = guarded(|| {
        let s = Sieve::new(nn);
        let mut primes = Vec::new();
        for n in 0..=nn {
            let p = n >= 2 && spf[n] as usize == n;
            if s.is_prime(n as i32) != p { return Some((format!("is_prime({}) = {}", n, s.is_prime(n as i32)), format!("{}", p))); }
            if p { primes.push(n as i32); }
            if n >= 2 && s.min_prime(n as i32) != spf[n] as i32 { return Some((format!("min_prime({}) = {}", n, s.min_prime(n as i32)), format!("{}", spf[n]))); }
            if n >= 1 {
                let mut it = s.factorize(n as i32);
                let mut m = n;
                while m > 1 {
                    let q = spf[m] as usize; let mut c = 0; while m % q == 0 { m /= q; c += 1; }
                    let g = it.next();
                    if g != Some((q as i32, c)) { return Some((format!("factorize({}) yields {:?}", n, g), format!("{:?}", (q, c)))); }
                }
                if let Some(extra) = it.next() { return Some((format!("factorize({}) yields an extra {:?}", n, extra), "end of the factorisation".into())); }
            }
        }
        if *s.primes() != primes { return Some((format!("primes() has {} entries, last {:?}", s.primes().len(), s.primes().last()), format!("{} primes, last {:?}", primes.len(), primes.last()))); }
        None
    });
    let x = match r { Ok(x) => x, Err(e) => Some((e, "no panic".into())) };
    x.map(|(o, e)| Cex { input: format!("big{}", nn), observed: format!("limit {}: {}", nn, o), expected: e })
}

pub fn run(_seed: u64, replay: Option<String>) -> Outcome {
    if let Some(r) = replay {
        if let Some(b) = r.strip_prefix("big") { return Outcome { cex: check_big(b.parse().unwrap_or(1000)), cases: 1 }; }
        return Outcome { cex: check(r.parse().unwrap_or(10)), cases: 1 };
    }
    let thorough = std::env::var("VERIF_TIER").map(|t| t == "thorough").unwrap_or(false);
    let mut cases = 0;
    // every limit up to a few thousand: every position of N relative to primes and prime squares
    for n in 0..=(if thorough { 3000usize } else { 1200 }) { cases += 1; if let Some(c) = check(n) { return Outcome { cex: Some(c), cases }; } }
    for n in [4096usize, 10007, 65535, 65536, 65537, 1_000_000] { cases += 1; if let Some(c) = check_big(n) { return Outcome { cex: Some(c), cases }; } }
    if thorough { cases += 1; if let Some(c) = check_big(10_000_000) { return Outcome { cex: Some(c), cases }; } }
    Outcome { cex: None, cases }
}
