//! C13: sieve tables against trial division. input encoding: "<N>"
use crate::{guarded, Cex, Outcome};
use rlib_sieve::Sieve;

fn lpf(n: i32) -> i32 { let mut d = 2; while d * d <= n { if n % d == 0 { return d; } d += 1; } n }

fn check(nn: usize) -> Option<Cex> {
    let r = guarded(|| {
        let s = Sieve::new(nn);
        let mut primes = Vec::new();
        for n in 0..=nn as i32 {
            let p = n >= 2 && lpf(n) == n;
            if s.is_prime(n) != p { return Some((format!("is_prime({}) = {}", n, s.is_prime(n)), format!("{}", p))); }
            if p { primes.push(n); }
            if n >= 2 && s.min_prime(n) != lpf(n) { return Some((format!("min_prime({}) = {}", n, s.min_prime(n)), format!("{}", lpf(n)))); }
            if n >= 1 {
                let got: Vec<(i32, i32)> = s.factorize(n).collect();
                let mut want = Vec::new(); let mut m = n;
                while m > 1 { let p = lpf(m); let mut c = 0; while m % p == 0 { m /= p; c += 1; } want.push((p, c)); }
                if got != want { return Some((format!("factorize({}) = {:?}", n, got), format!("{:?}", want))); }
            }
        }
        if *s.primes() != primes { return Some((format!("primes() = {:?}", s.primes()), format!("{:?}", primes))); }
        None
    });
    let x = match r { Ok(x) => x, Err(e) => Some((e, "no panic".into())) };
    x.map(|(o, e)| Cex { input: format!("{}", nn), observed: format!("limit {}: {}", nn, o), expected: e })
}

pub fn run(_seed: u64, replay: Option<String>) -> Outcome {
    if let Some(r) = replay { return Outcome { cex: check(r.parse().unwrap_or(10)), cases: 1 }; }
    let mut cases = 0;
    for n in 0..=400usize { cases += 1; if let Some(c) = check(n) { return Outcome { cex: Some(c), cases }; } }
    for n in [1000usize, 4096, 10007] { cases += 1; if let Some(c) = check(n) { return Outcome { cex: Some(c), cases }; } }
    Outcome { cex: None, cases }
}
