//! C14 — Kani harnesses on the real `rlib_rand` crate (path dependency on /repo).
//! Every harness below except `shuffle_*` is loop-free over fully symbolic inputs: a complete,
//! bit-precise proof for that type and range form, not a bounded stand-in.
#![allow(unused)]
#[cfg(kani)]
mod h {
    use rlib_rand::randomable::Randomable;
    use rlib_rand::{Rand, Rng};

    macro_rules! range_harnesses {
        ($t:ty, $ut:ty, $m:ident) => {
            mod $m {
                use super::*;
                // ---- membership: a draw lies inside the range for every raw generator output
                #[kani::proof]
                fn range_in() {
                    let (s, e, raw): ($t, $t, u64) = (kani::any(), kani::any(), kani::any());
                    kani::assume(s < e);
                    let r: $t = (s..e).gen_from_u64(raw);
                    assert!(s <= r && r < e);
                }
                #[kani::proof]
                fn range_inclusive_in() {
                    let (s, e, raw): ($t, $t, u64) = (kani::any(), kani::any(), kani::any());
                    kani::assume(s <= e);
                    let r: $t = (s..=e).gen_from_u64(raw);
                    assert!(s <= r && r <= e);
                }
                #[kani::proof]
                fn range_to_in() {
                    let (e, raw): ($t, u64) = (kani::any(), kani::any());
                    kani::assume(e > 0);
                    let r: $t = (..e).gen_from_u64(raw);
                    assert!(0 <= r && r < e);
                }
                #[kani::proof]
                fn range_to_inclusive_in() {
                    let (e, raw): ($t, u64) = (kani::any(), kani::any());
                    kani::assume(e >= 0);
                    let r: $t = (..=e).gen_from_u64(raw);
                    assert!(0 <= r && r <= e);
                }
                // ---- reachability: every value of the range is produced by some raw output.  The witness is explicit; so that an
                // implementation reading another part of the raw word (the high half, the top bits of the type's width) is not reported as
                // unreachable, the offset is offered at each of these positions and one of the candidates has to produce the value
                #[kani::proof]
                fn range_reach() {
                    let (s, e, v): ($t, $t, $t) = (kani::any(), kani::any(), kani::any());
                    kani::assume(s <= v && v < e);
                    let off = (v as $ut).wrapping_sub(s as $ut) as u64;
                    let mir = (e as $ut).wrapping_sub(v as $ut).wrapping_sub(1) as u64;     // the same value counted down from the end
                    let hit = |raw: u64| -> bool { let r: $t = (s..e).gen_from_u64(raw); r == v };
                    assert!(hit(off) || hit(mir) || (<$ut>::BITS < 64 && (hit(off << (64 - <$ut>::BITS)) || hit(mir << (64 - <$ut>::BITS))))
                        || (<$ut>::BITS < 32 && hit(off << 32)));
                }
                #[kani::proof]
                fn range_inclusive_reach() {
                    let (s, e, v): ($t, $t, $t) = (kani::any(), kani::any(), kani::any());
                    kani::assume(s <= v && v <= e);
                    let off = if s == <$t>::MIN && e == <$t>::MAX { v as $ut as u64 } else { (v as $ut).wrapping_sub(s as $ut) as u64 };
                    let mir = if s == <$t>::MIN && e == <$t>::MAX { !(v as $ut) as u64 } else { (e as $ut).wrapping_sub(v as $ut) as u64 };
                    let hit = |raw: u64| -> bool { let r: $t = (s..=e).gen_from_u64(raw); r == v };
                    assert!(hit(off) || hit(mir) || (<$ut>::BITS < 64 && (hit(off << (64 - <$ut>::BITS)) || hit(mir << (64 - <$ut>::BITS))))
                        || (<$ut>::BITS < 32 && hit(off << 32)));
                }
                #[kani::proof]
                fn range_full_reach() {
                    let v: $t = kani::any();
                    let off = v as $ut as u64;
                    let hit = |raw: u64| -> bool { let r: $t = (..).gen_from_u64(raw); r == v };
                    assert!(hit(off) || hit(off << 32) || hit(off << (64 - <$ut>::BITS)) || hit(off.rotate_left(32)));
                }
            }
        };
    }
    range_harnesses!(i8, u8, t_i8);
    range_harnesses!(u8, u8, t_u8);
    range_harnesses!(i16, u16, t_i16);
    range_harnesses!(u16, u16, t_u16);
    range_harnesses!(i32, u32, t_i32);
    range_harnesses!(u32, u32, t_u32);
    range_harnesses!(i64, u64, t_i64);
    range_harnesses!(u64, u64, t_u64);
    range_harnesses!(isize, usize, t_isize);
    range_harnesses!(usize, usize, t_usize);

    // ---- half-open float range: start <= x < end for every finite range and every raw output (loop-free, bit-precise f64: complete)
    mod t_f64 {
        use super::*;
        #[kani::proof]
        fn range_in() {
            let (s, e, raw): (f64, f64, u64) = (kani::any(), kani::any(), kani::any());
            kani::assume(s.is_finite() && e.is_finite() && s < e);
            let r: f64 = (s..e).gen_from_u64(raw);
            assert!(s <= r && r < e);
        }
    }

    // ---- shuffle returns a rearrangement (BOUNDED: slice length <= 4, generator state symbolic)
    fn shuffle_n<const N: usize>() {
        let seed: u64 = kani::any();
        let mut rng = Rng::from_seed(seed);
        let mut v = [0u8; N];
        for i in 0..N {
            v[i] = i as u8;
        }
        rng.shuffle(&mut v);
        let mut seen = [false; N];
        for i in 0..N {
            assert!((v[i] as usize) < N);
            assert!(!seen[v[i] as usize]);
            seen[v[i] as usize] = true;
        }
    }
    #[kani::proof]
    #[kani::unwind(6)]
    fn bounded_shuffle_len4() {
        shuffle_n::<4>();
    }
    #[kani::proof]
    #[kani::unwind(4)]
    fn bounded_shuffle_len2() {
        shuffle_n::<2>();
    }
    #[kani::proof]
    #[kani::unwind(3)]
    fn bounded_shuffle_len0_1() {
        shuffle_n::<0>();
        shuffle_n::<1>();
    }
}
