//! C01 — bounded Kani harness on the real `rlib_segtree` crate for `Segtree::from_slice`, which Verus cannot take
//! (`iter().cloned()`).  Sizes n <= 4, element values symbolic, a NON-COMMUTATIVE merge (byte-string concatenation packed in a u64).
#![allow(unused)]
#[cfg(kani)]
mod h {
    use rlib_segtree::{Segtree, SegtreeItem};

    /// a byte string of length `len` <= 4 packed big-endian into `val`: merge = concatenation (not commutative)
    #[derive(Clone, Copy, PartialEq, Debug)]
    struct Cat { val: u64, len: u8 }
    impl SegtreeItem for Cat {
        fn merge(l: &Self, r: &Self) -> Self { Cat { val: (l.val << (8 * r.len as u64)) | r.val, len: l.len + r.len } }
    }

    fn run<const N: usize>() {
        let bytes: [u8; N] = kani::any();
        let mut items = [Cat { val: 0, len: 1 }; N];
        let mut i = 0;
        while i < N { items[i] = Cat { val: bytes[i] as u64, len: 1 }; i += 1; }
        let mut t: Segtree<Cat, ()> = Segtree::from_slice(&items);
        let (l, r): (usize, usize) = (kani::any(), kani::any());
        kani::assume(l <= r && r < N);
        let got = t.ask(l, r);
        // the plain array's left-to-right merge
        let mut want = Cat { val: 0, len: 0 };
        let mut k = l;
        while k <= r { want = Cat { val: (want.val << 8) | bytes[k] as u64, len: want.len + 1 }; k += 1; }
        assert!(got == want, "ask after from_slice is the in-order merge of the slice");
        kani::cover!(true, "END");
    }
    #[kani::proof] #[kani::unwind(10)] fn bounded_from_slice_n1() { run::<1>(); }
    #[kani::proof] #[kani::unwind(10)] fn bounded_from_slice_n2() { run::<2>(); }
    #[kani::proof] #[kani::unwind(10)] fn bounded_from_slice_n3() { run::<3>(); }
    #[kani::proof] #[kani::unwind(12)] fn bounded_from_slice_n4() { run::<4>(); }
}
