//! C15 — Kani harnesses on the real `rlib_iter` crate for the parts outside Verus' language subset:
//! the `from_fn().chain()` wrappers iter_submasks / iter_supermasks (their terminal elements are `zero()` / `ones()`), and the neighbour iterators.
//! The step functions themselves (next_submask / next_supermask) are proved in Verus for all 12 types; what is
//! checked here is that the wrappers yield exactly the successive states followed by the terminal element.
#![allow(unused)]
#[cfg(kani)]
mod h {
    // module `q` = harnesses of the quick tier, module `t` = additional harnesses of the thorough tier
    use rlib_iter::*;

    macro_rules! mask_wrappers {
        ($t:ty, $ut:ty, $m:ident, $maxpop:expr, $unw:expr) => {
            mod $m {
                use super::super::*;
                /// items are x, (x-1)&x, ... down to 0, then None: every submask once, decreasing by bit pattern
                #[kani::proof]
                #[kani::unwind($unw)]
                fn bounded_submasks() {
                    let x: $t = kani::any();
                    kani::assume(x.count_ones() <= $maxpop);
                    let mut it = iter_submasks(x);
                    let mut prev: Option<$t> = None;
                    loop {
                        match it.next() {
                            None => break,
                            Some(v) => {
                                match prev {
                                    None => assert!(v == x),
                                    Some(p) => {
                                        assert!(p != 0);
                                        assert!(v == p.wrapping_sub(1) & x);
                                        assert!((v as $ut) < (p as $ut));
                                    }
                                }
                                prev = Some(v);
                            }
                        }
                    }
                    assert!(prev == Some(0));
                    kani::cover!(true, "END");
                }
                #[kani::proof]
                #[kani::unwind($unw)]
                fn bounded_supermasks() {
                    let x: $t = kani::any();
                    kani::assume(x.count_zeros() <= $maxpop);
                    let mut it = iter_supermasks(x);
                    let mut prev: Option<$t> = None;
                    loop {
                        match it.next() {
                            None => break,
                            Some(v) => {
                                match prev {
                                    None => assert!(v == x),
                                    Some(p) => {
                                        assert!(p != !0);
                                        assert!(v == p.wrapping_add(1) | x);
                                        assert!((v as $ut) > (p as $ut));
                                    }
                                }
                                prev = Some(v);
                            }
                        }
                    }
                    assert!(prev == Some(!0));
                    kani::cover!(true, "END");
                }
            }
        };
    }
    // popcount bound 4 => at most 16 masks + terminal; the 8-bit types are additionally run exhaustively below
    pub mod q_m_u8 { use super::*; mask_wrappers!(u8, u8, m_u8, 4, 19); }
    pub mod q_m_i8 { use super::*; mask_wrappers!(i8, u8, m_i8, 4, 19); }
    pub mod q_m_u16 { use super::*; mask_wrappers!(u16, u16, m_u16, 4, 19); }
    pub mod q_m_i16 { use super::*; mask_wrappers!(i16, u16, m_i16, 4, 19); }
    pub mod t_m_u32 { use super::*; mask_wrappers!(u32, u32, m_u32, 4, 19); }
    pub mod t_m_i32 { use super::*; mask_wrappers!(i32, u32, m_i32, 4, 19); }
    pub mod t_m_u64 { use super::*; mask_wrappers!(u64, u64, m_u64, 4, 19); }
    pub mod t_m_i64 { use super::*; mask_wrappers!(i64, u64, m_i64, 4, 19); }
    pub mod t_m_u128 { use super::*; mask_wrappers!(u128, u128, m_u128, 3, 11); }
    pub mod t_m_i128 { use super::*; mask_wrappers!(i128, u128, m_i128, 3, 11); }
    pub mod t_m_usize { use super::*; mask_wrappers!(usize, usize, m_usize, 4, 19); }
    pub mod t_m_isize { use super::*; mask_wrappers!(isize, usize, m_isize, 4, 19); }

    // ---- neighbours: n, m, i, j fully symbolic (i < n, j < m, sizes representable as isize): complete
    fn check_neigh<I: Iterator<Item = (usize, usize)>>(mut it: I, offs: &[(isize, isize)], n: usize, m: usize, i: usize, j: usize) {
        let mut k = 0usize;
        loop {
            let got = it.next();
            // advance k to the next in-bounds offset
            while k < offs.len() {
                let (a, b) = (i as isize + offs[k].0, j as isize + offs[k].1);
                if a >= 0 && a < n as isize && b >= 0 && b < m as isize {
                    break;
                }
                k += 1;
            }
            match got {
                None => {
                    assert!(k == offs.len(), "an in-bounds neighbour is missing");
                    break;
                }
                Some((a, b)) => {
                    assert!(k < offs.len(), "an extra cell was yielded");
                    assert!(a as isize == i as isize + offs[k].0 && b as isize == j as isize + offs[k].1, "wrong cell or wrong order");
                    k += 1;
                }
            }
        }
    }
    fn any_cell() -> (usize, usize, usize, usize) {
        let (n, m, i, j): (usize, usize, usize, usize) = (kani::any(), kani::any(), kani::any(), kani::any());
        kani::assume(n <= isize::MAX as usize && m <= isize::MAX as usize && i < n && j < m);
        (n, m, i, j)
    }
    #[kani::proof]
    #[kani::unwind(10)]
    fn t_neighbours_4() {
        let (n, m, i, j) = any_cell();
        check_neigh(iter_neighbours_4(n, m, i, j), &[(0, 1), (-1, 0), (0, -1), (1, 0)], n, m, i, j);
        kani::cover!(true, "END");
    }
    #[kani::proof]
    #[kani::unwind(10)]
    fn t_neighbours_4d() {
        let (n, m, i, j) = any_cell();
        check_neigh(iter_neighbours_4d(n, m, i, j), &[(-1, 1), (-1, -1), (1, -1), (1, 1)], n, m, i, j);
        kani::cover!(true, "END");
    }
    #[kani::proof]
    #[kani::unwind(12)]
    fn t_neighbours_8() {
        let (n, m, i, j) = any_cell();
        check_neigh(iter_neighbours_8(n, m, i, j), &[(0, 1), (-1, 1), (-1, 0), (-1, -1), (0, -1), (1, -1), (1, 0), (1, 1)], n, m, i, j);
        kani::cover!(true, "END");
    }
}
