//! C19 — Kani harnesses on the real `rlib_tensor` crate (path dependency on /repo).
//! All are BOUNDED stand-ins for the functions Verus cannot take (`iter().product()`, `contains`,
//! `Vec == Vec`): rank 2, extents <= 2 (eq) / <= 3 (constructors), every element value symbolic.
#![allow(unused)]
#[cfg(kani)]
mod h {
    use rlib_tensor::Tensor;

    fn shape(k: u8) -> [usize; 2] {
        match k % 4 {
            0 => [1, 1],
            1 => [1, 2],
            2 => [2, 1],
            _ => [2, 2],
        }
    }

    /// tensors compare equal only when both shape and elements agree (and do compare equal then)
    #[kani::proof]
    #[kani::unwind(20)]
    fn bounded_eq_d2() {
        let (ka, kb): (u8, u8) = (kani::any(), kani::any());
        let (da, db) = (shape(ka), shape(kb));
        let ea: [u8; 4] = kani::any();
        let eb: [u8; 4] = kani::any();
        let (na, nb) = (da[0] * da[1], db[0] * db[1]);
        let ta = Tensor::<u8, 2>::from_vec(da, ea[..na].to_vec());
        let tb = Tensor::<u8, 2>::from_vec(db, eb[..nb].to_vec());
        let same = da == db && ea[..na] == eb[..nb];
        assert!((ta == tb) == same, "tensor equality must compare shape and elements");
    }

    /// valid shapes are accepted by all three constructors and keep dims / row-major data
    #[kani::proof]
    #[kani::unwind(20)]
    fn bounded_ctor_accepts() {
        let d: [usize; 2] = [kani::any(), kani::any()];
        kani::assume(1 <= d[0] && d[0] <= 3 && 1 <= d[1] && d[1] <= 3);
        let e: [u8; 9] = kani::any();
        let n = d[0] * d[1];
        let t = Tensor::<u8, 2>::from_vec(d, e[..n].to_vec());
        assert!(*t.dims() == d);
        let (i, j): (usize, usize) = (kani::any(), kani::any());
        kani::assume(i < d[0] && j < d[1]);
        assert!(t[[i, j]] == e[i * d[1] + j]);
        let t2 = Tensor::<u8, 2>::from_slice(d, &e[..n]);
        assert!(t2[[i, j]] == e[i * d[1] + j]);
        let t3 = Tensor::<u8, 2>::new(d, 7u8);
        assert!(t3[[i, j]] == 7 && *t3.dims() == d);
    }

    /// zero extents or a data length that does not match the shape are rejected (panic) by from_vec
    #[kani::proof]
    #[kani::unwind(20)]
    #[kani::should_panic]
    fn bounded_from_vec_rejects() {
        let d: [usize; 2] = [kani::any(), kani::any()];
        kani::assume(d[0] <= 3 && d[1] <= 3);
        let n: usize = kani::any();
        kani::assume(n <= 9);
        kani::assume(d[0] == 0 || d[1] == 0 || d[0] * d[1] != n);
        let e: [u8; 9] = kani::any();
        let _ = Tensor::<u8, 2>::from_vec(d, e[..n].to_vec());
        kani::cover!(true, "REJECT_BYPASS: from_vec accepted an invalid shape");
    }

    #[kani::proof]
    #[kani::unwind(20)]
    #[kani::should_panic]
    fn bounded_from_slice_rejects() {
        let d: [usize; 2] = [kani::any(), kani::any()];
        kani::assume(d[0] <= 3 && d[1] <= 3);
        let n: usize = kani::any();
        kani::assume(n <= 9);
        kani::assume(d[0] == 0 || d[1] == 0 || d[0] * d[1] != n);
        let e: [u8; 9] = kani::any();
        let _ = Tensor::<u8, 2>::from_slice(d, &e[..n]);
        kani::cover!(true, "REJECT_BYPASS: from_slice accepted an invalid shape");
    }

    #[kani::proof]
    #[kani::unwind(20)]
    #[kani::should_panic]
    fn bounded_new_rejects_zero_extent() {
        let d: [usize; 2] = [kani::any(), kani::any()];
        kani::assume(d[0] <= 3 && d[1] <= 3 && (d[0] == 0 || d[1] == 0));
        let _ = Tensor::<u8, 2>::new(d, 1u8);
        kani::cover!(true, "REJECT_BYPASS: new accepted a zero extent");
    }
}
