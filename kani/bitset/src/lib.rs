//! C12 — Kani harnesses on the real `rlib_bitset` crate for the operations outside Verus' language subset
//! (`&`, `|`, `^` use enumerate; `!` takes `mut self`; `count` uses map/sum; derived `==`).
//! Capacities N = 1, 2, 3 words, every word of every operand fully symbolic: complete for those capacities, bounded in N only.
#![allow(unused)]
#[cfg(kani)]
mod h {
    use rlib_bitset::Bitset;

    macro_rules! for_capacity {
        ($m:ident, $n:expr) => {
            pub mod $m {
                use super::*;
                const N: usize = $n;

            /// a bitset all of whose N words are fully symbolic, built through the public API only
            fn any_bitset() -> (Bitset<N>, [u64; N]) {
                let w: [u64; N] = kani::any();
                let mut b = Bitset::<N>::from_u64(w[0]);
                let mut word = 1;
                while word < N {
                    let mut k = 0;
                    while k < 64 {
                        if w[word] >> k & 1 == 1 {
                            b.set(64 * word + k);
                        }
                        k += 1;
                    }
                    word += 1;
                }
                (b, w)
            }
            fn bit(w: &[u64; N], k: usize) -> bool { w[k / 64] >> (k % 64) & 1 == 1 }

            #[kani::proof]
            #[kani::unwind(66)]
            fn bounded_binops() {
                let (a, wa) = any_bitset();
                let (b, wb) = any_bitset();
                let k: usize = kani::any();
                kani::assume(k < 64 * N);
                assert!((&a & &b).test(k) == (bit(&wa, k) && bit(&wb, k)));
                assert!((&a | &b).test(k) == (bit(&wa, k) || bit(&wb, k)));
                assert!((&a ^ &b).test(k) == (bit(&wa, k) != bit(&wb, k)));
            }

            #[kani::proof]
            #[kani::unwind(66)]
            fn bounded_not() {
                let (a, wa) = any_bitset();
                let k: usize = kani::any();
                kani::assume(k < 64 * N);
                let c = !a;
                assert!(c.test(k) == !bit(&wa, k));
            }

            #[kani::proof]
            #[kani::unwind(66)]
            fn bounded_count() {
                let (a, wa) = any_bitset();
                let mut want = 0usize;
                let mut i = 0;
                while i < N { want += wa[i].count_ones() as usize; i += 1; }
                assert!(a.count() == want);
            }

            #[kani::proof]
            #[kani::unwind(66)]
            fn bounded_eq() {
                let (a, wa) = any_bitset();
                let (b, wb) = any_bitset();
                assert!((a == b) == (wa == wb));
            }
            }
        };
    }
    for_capacity!(n2, 2);
    for_capacity!(n1, 1);
    for_capacity!(n3, 3);
}
