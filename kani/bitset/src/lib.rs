//! C12 — Kani harnesses on the real `rlib_bitset` crate for the operations outside Verus' language subset
//! (`&`, `|`, `^` use enumerate; `!` takes `mut self`; `count` uses map/sum; derived `==`).
//! N = 2 words, both words of both operands fully symbolic: complete for that capacity, bounded in N only.
#![allow(unused)]
#[cfg(kani)]
mod h {
    use rlib_bitset::Bitset;
    const N: usize = 2;

    /// a bitset whose two words are fully symbolic, built through the public API only
    fn any_bitset() -> (Bitset<N>, [u64; N]) {
        let w: [u64; N] = kani::any();
        let mut b = Bitset::<N>::from_u64(w[0]);
        let mut k = 0;
        while k < 64 {
            if w[1] >> k & 1 == 1 {
                b.set(64 + k);
            }
            k += 1;
        }
        (b, w)
    }
    fn bit(w: &[u64; N], k: usize) -> bool { w[k / 64] >> (k % 64) & 1 == 1 }

    #[kani::proof]
    #[kani::unwind(66)]
    fn bounded_binops_n2() {
        let (a, wa) = any_bitset();
        let (b, wb) = any_bitset();
        let k: usize = kani::any();
        kani::assume(k < 64 * N);
        assert!((&a & &b).test(k) == (bit(&wa, k) && bit(&wb, k)));
        assert!((&a | &b).test(k) == (bit(&wa, k) || bit(&wb, k)));
        assert!((&a ^ &b).test(k) == (bit(&wa, k) != bit(&wb, k)));
    }

    #[kani::proof]
    #[kani::unwind(66)]
    fn bounded_not_n2() {
        let (a, wa) = any_bitset();
        let k: usize = kani::any();
        kani::assume(k < 64 * N);
        let c = !a;
        assert!(c.test(k) == !bit(&wa, k));
    }

    #[kani::proof]
    #[kani::unwind(66)]
    fn bounded_count_n2() {
        let (a, wa) = any_bitset();
        assert!(a.count() == (wa[0].count_ones() + wa[1].count_ones()) as usize);
    }

    #[kani::proof]
    #[kani::unwind(66)]
    fn bounded_eq_n2() {
        let (a, wa) = any_bitset();
        let (b, wb) = any_bitset();
        assert!((a == b) == (wa == wb));
    }
}
