use vstd::prelude::*;
verus! {
global size_of usize == 8;
#[verifier::external_body]
fn reject() ensures false { panic!() }

// ---------------- trait: real text + spec members ----------------
pub trait SegtreeItem<M = ()>: Sized {
    type V;
    type P;
    spec fn val(&self) -> Self::V;
    spec fn pend(&self) -> Self::P;
    spec fn op(a: Self::V, b: Self::V) -> Self::V;
    spec fn act(p: Self::P, v: Self::V) -> Self::V;
    spec fn comp(first: Self::P, then: Self::P) -> Self::P;
    spec fn pid() -> Self::P;
    spec fn mview(m: &M) -> Self::P;

    proof fn law_clone(a: &Self, b: &Self) where Self: Clone
        requires cloned(*a, *b)
        ensures a.val() == b.val(), a.pend() == b.pend();
    // the Default item is a left identity of op (needed by lower_bound) 
    proof fn law_default_left_id(d: Self, x: Self::V) where Self: Default
        requires call_ensures(<Self as Default>::default, (), d)
        ensures Self::op(d.val(), x) == x;
    proof fn law_assoc(a: Self::V, b: Self::V, c: Self::V)
        ensures Self::op(Self::op(a, b), c) == Self::op(a, Self::op(b, c));
    proof fn law_act_id(v: Self::V)
        ensures Self::act(Self::pid(), v) == v;
    proof fn law_act_comp(p: Self::P, q: Self::P, v: Self::V)
        ensures Self::act(Self::comp(p, q), v) == Self::act(q, Self::act(p, v));
    proof fn law_distrib(p: Self::P, a: Self::V, b: Self::V)
        ensures Self::act(p, Self::op(a, b)) == Self::op(Self::act(p, a), Self::act(p, b));

    fn merge(left: &Self, right: &Self) -> (r: Self)
        ensures r.val() == Self::op(left.val(), right.val()), r.pend() == Self::pid();

    fn update(&mut self, left: &Self, right: &Self)
        ensures final(self).val() == Self::op(left.val(), right.val()), final(self).pend() == Self::pid()
    {
        *self = Self::merge(left, right);
    }

    fn modify(&mut self, _modifier: &M)
        ensures final(self).val() == Self::act(Self::mview(_modifier), old(self).val()),
                final(self).pend() == Self::comp(old(self).pend(), Self::mview(_modifier));

    fn push(&mut self, _left: &mut Self, _right: &mut Self)
        ensures final(self).val() == old(self).val(), final(self).pend() == Self::pid(),
            final(_left).val() == Self::act(old(self).pend(), old(_left).val()),
            final(_left).pend() == Self::comp(old(_left).pend(), old(self).pend()),
            final(_right).val() == Self::act(old(self).pend(), old(_right).val()),
            final(_right).pend() == Self::comp(old(_right).pend(), old(self).pend());
}

pub struct Segtree<T, M> {
    pub n: usize,
    pub data: Vec<T>,
    pub phantom: std::marker::PhantomData<M>,
}

// ---------------- spec layer ----------------
pub open spec fn desc(i: int, j: int) -> bool
    decreases j
{
    if j == i { true } else if j <= i || j <= 0 { false } else { desc(i, (j - 1) / 2) }
}

pub open spec fn map_act<M, T: SegtreeItem<M>>(p: T::P, s: Seq<T::V>) -> Seq<T::V> {
    Seq::new(s.len(), |k: int| T::act(p, s[k]))
}

pub open spec fn fold<M, T: SegtreeItem<M>>(s: Seq<T::V>) -> T::V
    decreases s.len()
{
    if s.len() <= 1 { s[0] } else { T::op(fold::<M, T>(s.drop_last()), s.last()) }
}

pub open spec fn repr<M, T: SegtreeItem<M>>(d: Seq<T>, i: int, vl: int, vr: int) -> Seq<T::V>
    decreases vr - vl
{
    if vl >= vr {
        seq![d[i].val()]
    } else {
        let m = (vl + vr) / 2;
        map_act::<M, T>(d[i].pend(), repr::<M, T>(d, 2 * i + 1, vl, m) + repr::<M, T>(d, 2 * i + 2, m + 1, vr))
    }
}

pub open spec fn wf<M, T: SegtreeItem<M>>(d: Seq<T>, i: int, vl: int, vr: int) -> bool
    decreases vr - vl
{
    0 <= i < d.len() && 0 <= vl <= vr && (if vl >= vr { true } else {
        let m = (vl + vr) / 2;
        wf::<M, T>(d, 2 * i + 1, vl, m) && wf::<M, T>(d, 2 * i + 2, m + 1, vr)
        && d[i].val() == fold::<M, T>(repr::<M, T>(d, i, vl, vr))
    })
}

pub open spec fn same_outside(d1: Seq<int>, d2: Seq<int>) -> bool { true }

proof fn lemma_repr_len<M, T: SegtreeItem<M>>(d: Seq<T>, i: int, vl: int, vr: int)
    requires vl <= vr
    ensures repr::<M, T>(d, i, vl, vr).len() == vr - vl + 1
    decreases vr - vl
{
    if vl < vr {
        let m = (vl + vr) / 2;
        lemma_repr_len::<M, T>(d, 2 * i + 1, vl, m);
        lemma_repr_len::<M, T>(d, 2 * i + 2, m + 1, vr);
    }
}

proof fn lemma_desc_child(i: int, j: int)
    requires 0 <= i, desc(2 * i + 1, j) || desc(2 * i + 2, j)
    ensures desc(i, j), j != i
    decreases j
{
    if j == 2 * i + 1 || j == 2 * i + 2 {
        assert(desc(i, (j - 1) / 2));
    } else {
        lemma_desc_child(i, (j - 1) / 2);
    }
}

proof fn lemma_desc_ge(i: int, j: int)
    requires desc(i, j)
    ensures j >= i
    decreases j
{
    if j != i { lemma_desc_ge(i, (j - 1) / 2); }
}

proof fn lemma_desc_disjoint(i: int, j: int)
    requires 0 <= i, desc(2 * i + 1, j)
    ensures !desc(2 * i + 2, j)
    decreases j
{
    if j == 2 * i + 1 {
        if desc(2*i+2, j) { lemma_desc_ge(2*i+2, j); }
    } else {
        lemma_desc_ge(2*i+1, j);
        if j == 2 * i + 2 {
            // desc(2i+1, 2i+2): parent of 2i+2 is i < 2i+1
            assert(!desc(2 * i + 1, (j - 1) / 2)) by { if desc(2*i+1, (j-1)/2) { lemma_desc_ge(2*i+1, (j-1)/2); } }
        } else {
            lemma_desc_disjoint(i, (j - 1) / 2);
            if desc(2*i+2, j) { lemma_desc_ge(2*i+2, j); }
        }
    }
}

proof fn lemma_frame<M, T: SegtreeItem<M>>(d1: Seq<T>, d2: Seq<T>, i: int, vl: int, vr: int)
    requires 0 <= i, vl <= vr, d1.len() == d2.len(),
        forall|j: int| 0 <= j < d1.len() && desc(i, j) ==> d1[j] == d2[j],
        wf::<M, T>(d1, i, vl, vr),
    ensures repr::<M, T>(d1, i, vl, vr) == repr::<M, T>(d2, i, vl, vr), wf::<M, T>(d2, i, vl, vr)
    decreases vr - vl
{
    assert(desc(i, i));
    if vl < vr {
        let m = (vl + vr) / 2;
        assert forall|j: int| 0 <= j < d1.len() && desc(2 * i + 1, j) implies d1[j] == d2[j] by { lemma_desc_child(i, j); }
        assert forall|j: int| 0 <= j < d1.len() && desc(2 * i + 2, j) implies d1[j] == d2[j] by { lemma_desc_child(i, j); }
        lemma_frame::<M, T>(d1, d2, 2 * i + 1, vl, m);
        lemma_frame::<M, T>(d1, d2, 2 * i + 2, m + 1, vr);
    }
}

proof fn lemma_fold_concat<M, T: SegtreeItem<M>>(a: Seq<T::V>, b: Seq<T::V>)
    requires a.len() >= 1, b.len() >= 1
    ensures fold::<M, T>(a + b) == T::op(fold::<M, T>(a), fold::<M, T>(b))
    decreases b.len()
{
    let ab = a + b;
    assert(ab.drop_last() == a + b.drop_last());
    assert(ab.last() == b.last());
    if b.len() == 1 {
        assert(a + b.drop_last() == a);
    } else {
        lemma_fold_concat::<M, T>(a, b.drop_last());
        T::law_assoc(fold::<M, T>(a), fold::<M, T>(b.drop_last()), b.last());
    }
}

proof fn lemma_fold_map<M, T: SegtreeItem<M>>(p: T::P, s: Seq<T::V>)
    requires s.len() >= 1
    ensures fold::<M, T>(map_act::<M, T>(p, s)) == T::act(p, fold::<M, T>(s))
    decreases s.len()
{
    let ms = map_act::<M, T>(p, s);
    if s.len() > 1 {
        assert(ms.drop_last() == map_act::<M, T>(p, s.drop_last()));
        lemma_fold_map::<M, T>(p, s.drop_last());
        T::law_distrib(p, fold::<M, T>(s.drop_last()), s.last());
    }
}

proof fn lemma_map_id<M, T: SegtreeItem<M>>(s: Seq<T::V>)
    ensures map_act::<M, T>(T::pid(), s) == s
{
    assert forall|k: int| 0 <= k < s.len() implies map_act::<M, T>(T::pid(), s)[k] == s[k] by { T::law_act_id(s[k]); }
    assert(map_act::<M, T>(T::pid(), s) =~= s);
}

proof fn lemma_map_comp<M, T: SegtreeItem<M>>(p: T::P, q: T::P, s: Seq<T::V>)
    ensures map_act::<M, T>(T::comp(p, q), s) == map_act::<M, T>(q, map_act::<M, T>(p, s))
{
    assert forall|k: int| 0 <= k < s.len() implies map_act::<M, T>(T::comp(p, q), s)[k] == map_act::<M, T>(q, map_act::<M, T>(p, s))[k] by { T::law_act_comp(p, q, s[k]); }
    assert(map_act::<M, T>(T::comp(p, q), s) =~= map_act::<M, T>(q, map_act::<M, T>(p, s)));
}

proof fn lemma_map_concat<M, T: SegtreeItem<M>>(p: T::P, a: Seq<T::V>, b: Seq<T::V>)
    ensures map_act::<M, T>(p, a + b) == map_act::<M, T>(p, a) + map_act::<M, T>(p, b)
{
    assert(map_act::<M, T>(p, a + b) =~= map_act::<M, T>(p, a) + map_act::<M, T>(p, b));
}

// effect of applying a pending modifier q on top of node c (value acted, pending composed), subtree below unchanged
proof fn lemma_apply_node<M, T: SegtreeItem<M>>(d1: Seq<T>, d2: Seq<T>, c: int, vl: int, vr: int, q: T::P)
    requires 0 <= c, vl <= vr, d1.len() == d2.len(), wf::<M, T>(d1, c, vl, vr),
        forall|j: int| 0 <= j < d1.len() && desc(c, j) && j != c ==> d1[j] == d2[j],
        d2[c].val() == T::act(q, d1[c].val()),
        d2[c].pend() == T::comp(d1[c].pend(), q),
    ensures wf::<M, T>(d2, c, vl, vr),
        repr::<M, T>(d2, c, vl, vr) == map_act::<M, T>(q, repr::<M, T>(d1, c, vl, vr)),
{
    if vl >= vr {
        assert(repr::<M, T>(d2, c, vl, vr) =~= map_act::<M, T>(q, repr::<M, T>(d1, c, vl, vr)));
    } else {
        let m = (vl + vr) / 2;
        assert forall|j: int| 0 <= j < d1.len() && desc(2 * c + 1, j) implies d1[j] == d2[j] by { lemma_desc_child(c, j); }
        assert forall|j: int| 0 <= j < d1.len() && desc(2 * c + 2, j) implies d1[j] == d2[j] by { lemma_desc_child(c, j); }
        lemma_frame::<M, T>(d1, d2, 2 * c + 1, vl, m);
        lemma_frame::<M, T>(d1, d2, 2 * c + 2, m + 1, vr);
        let kids = repr::<M, T>(d1, 2 * c + 1, vl, m) + repr::<M, T>(d1, 2 * c + 2, m + 1, vr);
        lemma_map_comp::<M, T>(d1[c].pend(), q, kids);
        lemma_repr_len::<M, T>(d1, 2 * c + 1, vl, m);
        lemma_fold_map::<M, T>(q, repr::<M, T>(d1, c, vl, vr));
    }
}

proof fn lemma_push<M, T: SegtreeItem<M>>(d1: Seq<T>, d2: Seq<T>, i: int, vl: int, vr: int)
    requires 0 <= i, vl < vr, d1.len() == d2.len(), wf::<M, T>(d1, i, vl, vr),
        forall|j: int| 0 <= j < d1.len() && j != i && j != 2 * i + 1 && j != 2 * i + 2 ==> d1[j] == d2[j],
        d2[i].val() == d1[i].val(), d2[i].pend() == T::pid(),
        d2[2 * i + 1].val() == T::act(d1[i].pend(), d1[2 * i + 1].val()),
        d2[2 * i + 1].pend() == T::comp(d1[2 * i + 1].pend(), d1[i].pend()),
        d2[2 * i + 2].val() == T::act(d1[i].pend(), d1[2 * i + 2].val()),
        d2[2 * i + 2].pend() == T::comp(d1[2 * i + 2].pend(), d1[i].pend()),
    ensures wf::<M, T>(d2, i, vl, vr),
        repr::<M, T>(d2, i, vl, vr) == repr::<M, T>(d1, i, vl, vr),
        repr::<M, T>(d2, i, vl, vr) == repr::<M, T>(d2, 2 * i + 1, vl, (vl + vr) / 2) + repr::<M, T>(d2, 2 * i + 2, (vl + vr) / 2 + 1, vr),
{
    let m = (vl + vr) / 2;
    let p = d1[i].pend();
    assert forall|j: int| 0 <= j < d1.len() && desc(2 * i + 1, j) && j != 2 * i + 1 implies d1[j] == d2[j] by {
        lemma_desc_ge(2 * i + 1, j); lemma_desc_disjoint(i, j);
        if j == 2 * i + 2 { assert(desc(2 * i + 2, j)); }
    }
    assert forall|j: int| 0 <= j < d1.len() && desc(2 * i + 2, j) && j != 2 * i + 2 implies d1[j] == d2[j] by {
        lemma_desc_ge(2 * i + 2, j);
    }
    lemma_apply_node::<M, T>(d1, d2, 2 * i + 1, vl, m, p);
    lemma_apply_node::<M, T>(d1, d2, 2 * i + 2, m + 1, vr, p);
    let l1 = repr::<M, T>(d1, 2 * i + 1, vl, m);
    let r1 = repr::<M, T>(d1, 2 * i + 2, m + 1, vr);
    lemma_map_concat::<M, T>(p, l1, r1);
    lemma_map_id::<M, T>(repr::<M, T>(d2, 2 * i + 1, vl, m) + repr::<M, T>(d2, 2 * i + 2, m + 1, vr));
}


// after a recursive call on one child that preserved that child's repr/wf and touched only its subtree (node i has pend == pid)
proof fn lemma_after_child<M, T: SegtreeItem<M>>(d1: Seq<T>, d2: Seq<T>, i: int, vl: int, vr: int, left: bool)
    requires 0 <= i, vl < vr, wf::<M, T>(d1, i, vl, vr),
        outside_same(d1, d2, if left { 2 * i + 1 } else { 2 * i + 2 }),
        left ==> wf::<M, T>(d2, 2 * i + 1, vl, (vl + vr) / 2) && repr::<M, T>(d2, 2 * i + 1, vl, (vl + vr) / 2) == repr::<M, T>(d1, 2 * i + 1, vl, (vl + vr) / 2),
        !left ==> wf::<M, T>(d2, 2 * i + 2, (vl + vr) / 2 + 1, vr) && repr::<M, T>(d2, 2 * i + 2, (vl + vr) / 2 + 1, vr) == repr::<M, T>(d1, 2 * i + 2, (vl + vr) / 2 + 1, vr),
    ensures wf::<M, T>(d2, i, vl, vr), repr::<M, T>(d2, i, vl, vr) == repr::<M, T>(d1, i, vl, vr),
        repr::<M, T>(d2, 2 * i + 1, vl, (vl + vr) / 2) == repr::<M, T>(d1, 2 * i + 1, vl, (vl + vr) / 2),
        repr::<M, T>(d2, 2 * i + 2, (vl + vr) / 2 + 1, vr) == repr::<M, T>(d1, 2 * i + 2, (vl + vr) / 2 + 1, vr),
{
    let m = (vl + vr) / 2;
    let c = if left { 2 * i + 1 } else { 2 * i + 2 };
    let o = if left { 2 * i + 2 } else { 2 * i + 1 };
    assert(!desc(c, i)) by { if desc(c, i) { lemma_desc_ge(c, i); } }
    assert forall|j: int| 0 <= j < d1.len() && desc(o, j) implies d1[j] == d2[j] by {
        if desc(c, j) { if left { lemma_desc_disjoint(i, j); } else { lemma_desc_disjoint(i, j); } }
    }
    if left { lemma_frame::<M, T>(d1, d2, 2 * i + 2, m + 1, vr); } else { lemma_frame::<M, T>(d1, d2, 2 * i + 1, vl, m); }
}

proof fn lemma_outside_trans<T>(d0: Seq<T>, d1: Seq<T>, d2: Seq<T>, i: int, left: bool)
    requires 0 <= i, outside_same(d0, d1, i), outside_same(d1, d2, if left { 2 * i + 1 } else { 2 * i + 2 }),
    ensures outside_same(d0, d2, i)
{
    assert forall|j: int| 0 <= j < d0.len() && !desc(i, j) implies d0[j] == d2[j] by {
        let c = if left { 2 * i + 1 } else { 2 * i + 2 };
        if desc(c, j) { lemma_desc_child(i, j); }
    }
}

pub open spec fn outside_same<T>(d1: Seq<T>, d2: Seq<T>, i: int) -> bool {
    d1.len() == d2.len() && forall|j: int| 0 <= j < d1.len() && !desc(i, j) ==> d1[j] == d2[j]
}

proof fn lemma_sub_split<A>(s: Seq<A>, a: Seq<A>, b: Seq<A>, lo: int, hi: int)
    requires s == a + b, 0 <= lo < a.len(), a.len() <= hi <= s.len()
    ensures s.subrange(lo, hi) == a.subrange(lo, a.len() as int) + b.subrange(0, hi - a.len())
{
    assert(s.subrange(lo, hi) =~= a.subrange(lo, a.len() as int) + b.subrange(0, hi - a.len()));
}


pub open spec fn apply_range<M, T: SegtreeItem<M>>(s: Seq<T::V>, a: int, b: int, p: T::P) -> Seq<T::V> {
    Seq::new(s.len(), |k: int| if a <= k <= b { T::act(p, s[k]) } else { s[k] })
}

// node i recomputed from its (wf) children: val = op(children), pend = pid
proof fn lemma_merge<M, T: SegtreeItem<M>>(d1: Seq<T>, d2: Seq<T>, i: int, vl: int, vr: int)
    requires 0 <= i, vl < vr, d1.len() == d2.len(), 2 * i + 2 < d1.len(),
        wf::<M, T>(d1, 2 * i + 1, vl, (vl + vr) / 2), wf::<M, T>(d1, 2 * i + 2, (vl + vr) / 2 + 1, vr),
        forall|j: int| 0 <= j < d1.len() && j != i ==> d1[j] == d2[j],
        d2[i].val() == T::op(d1[2 * i + 1].val(), d1[2 * i + 2].val()), d2[i].pend() == T::pid(),
    ensures wf::<M, T>(d2, i, vl, vr),
        repr::<M, T>(d2, i, vl, vr) == repr::<M, T>(d1, 2 * i + 1, vl, (vl + vr) / 2) + repr::<M, T>(d1, 2 * i + 2, (vl + vr) / 2 + 1, vr),
{
    let m = (vl + vr) / 2;
    assert forall|j: int| 0 <= j < d1.len() && desc(2 * i + 1, j) implies d1[j] == d2[j] by { lemma_desc_ge(2 * i + 1, j); }
    assert forall|j: int| 0 <= j < d1.len() && desc(2 * i + 2, j) implies d1[j] == d2[j] by { lemma_desc_ge(2 * i + 2, j); }
    lemma_frame::<M, T>(d1, d2, 2 * i + 1, vl, m);
    lemma_frame::<M, T>(d1, d2, 2 * i + 2, m + 1, vr);
    let l = repr::<M, T>(d1, 2 * i + 1, vl, m);
    let r = repr::<M, T>(d1, 2 * i + 2, m + 1, vr);
    lemma_repr_len::<M, T>(d1, 2 * i + 1, vl, m);
    lemma_repr_len::<M, T>(d1, 2 * i + 2, m + 1, vr);
    lemma_map_id::<M, T>(l + r);
    lemma_fold_concat::<M, T>(l, r);
    lemma_wf_val::<M, T>(d1, 2 * i + 1, vl, m);
    lemma_wf_val::<M, T>(d1, 2 * i + 2, m + 1, vr);
}

// for every wf node (leaf or inner) the stored value is the fold of what it represents
proof fn lemma_wf_val<M, T: SegtreeItem<M>>(d: Seq<T>, i: int, vl: int, vr: int)
    requires wf::<M, T>(d, i, vl, vr)
    ensures d[i].val() == fold::<M, T>(repr::<M, T>(d, i, vl, vr))
{
}

// after a recursive call that changed one child's subtree only: the other child keeps wf/repr
proof fn lemma_child_changed<M, T: SegtreeItem<M>>(d1: Seq<T>, d2: Seq<T>, i: int, vl: int, vr: int, left: bool)
    requires 0 <= i, vl < vr, d1.len() == d2.len(), 2 * i + 2 < d1.len(),
        wf::<M, T>(d1, 2 * i + 1, vl, (vl + vr) / 2), wf::<M, T>(d1, 2 * i + 2, (vl + vr) / 2 + 1, vr),
        outside_same(d1, d2, if left { 2 * i + 1 } else { 2 * i + 2 }),
    ensures
        d2[i] == d1[i],
        left ==> wf::<M, T>(d2, 2 * i + 2, (vl + vr) / 2 + 1, vr) && repr::<M, T>(d2, 2 * i + 2, (vl + vr) / 2 + 1, vr) == repr::<M, T>(d1, 2 * i + 2, (vl + vr) / 2 + 1, vr),
        !left ==> wf::<M, T>(d2, 2 * i + 1, vl, (vl + vr) / 2) && repr::<M, T>(d2, 2 * i + 1, vl, (vl + vr) / 2) == repr::<M, T>(d1, 2 * i + 1, vl, (vl + vr) / 2),
{
    let m = (vl + vr) / 2;
    let c = if left { 2 * i + 1 } else { 2 * i + 2 };
    let o = if left { 2 * i + 2 } else { 2 * i + 1 };
    assert(!desc(c, i)) by { if desc(c, i) { lemma_desc_ge(c, i); } }
    assert forall|j: int| 0 <= j < d1.len() && desc(o, j) implies d1[j] == d2[j] by {
        if desc(c, j) { lemma_desc_disjoint(i, j); }
    }
    if left { lemma_frame::<M, T>(d1, d2, 2 * i + 2, m + 1, vr); } else { lemma_frame::<M, T>(d1, d2, 2 * i + 1, vl, m); }
}

// ---------------- C02: predicates ----------------
pub open spec fn fdet<M, T: SegtreeItem<M>, F: Fn(&T) -> bool>(f: &F) -> bool {
    &&& forall|t: &T| #[trigger] f.requires((t,))
    &&& forall|t1: T, t2: T, b1: bool, b2: bool| t1.val() == t2.val() && #[trigger] f.ensures((&t1,), b1) && #[trigger] f.ensures((&t2,), b2) ==> b1 == b2
}
pub open spec fn psat<M, T: SegtreeItem<M>, F: Fn(&T) -> bool>(f: &F, v: T::V) -> bool {
    exists|t: T| t.val() == v && #[trigger] f.ensures((&t,), true)
}
// value of  c (+) s[a] (+) ... (+) s[k]   (k == a-1 gives c)
pub open spec fn acc<M, T: SegtreeItem<M>>(c: T::V, s: Seq<T::V>, a: int, k: int) -> T::V {
    fold::<M, T>(seq![c] + s.subrange(a, k + 1))
}
pub open spec fn mono<M, T: SegtreeItem<M>, F: Fn(&T) -> bool>(f: &F, c: T::V, s: Seq<T::V>, a: int) -> bool {
    forall|j1: int, j2: int| a <= j1 <= j2 < s.len() && psat::<M, T, F>(f, acc::<M, T>(c, s, a, j1)) ==> psat::<M, T, F>(f, acc::<M, T>(c, s, a, j2))
}
pub open spec fn lb_post<M, T: SegtreeItem<M>, F: Fn(&T) -> bool>(f: &F, c: T::V, s: Seq<T::V>, a: int, vl: int, out: (T, Option<usize>)) -> bool {
    match out.1 {
        Some(k) => {
            &&& vl + a <= k < vl + s.len()
            &&& psat::<M, T, F>(f, acc::<M, T>(c, s, a, k - vl))
            &&& forall|j: int| a <= j < k - vl ==> !psat::<M, T, F>(f, acc::<M, T>(c, s, a, j))
            &&& out.0.val() == acc::<M, T>(c, s, a, k - vl)
        },
        None => {
            &&& forall|j: int| a <= j < s.len() ==> !psat::<M, T, F>(f, acc::<M, T>(c, s, a, j))
            &&& out.0.val() == acc::<M, T>(c, s, a, s.len() - 1)
        },
    }
}

proof fn lemma_acc_left<M, T: SegtreeItem<M>>(c: T::V, l: Seq<T::V>, r: Seq<T::V>, a: int, j: int)
    requires 0 <= a <= j + 1, j < l.len()
    ensures acc::<M, T>(c, l + r, a, j) == acc::<M, T>(c, l, a, j)
{
    assert((l + r).subrange(a, j + 1) =~= l.subrange(a, j + 1));
}
proof fn lemma_acc_right<M, T: SegtreeItem<M>>(c: T::V, l: Seq<T::V>, r: Seq<T::V>, a: int, j: int)
    requires 0 <= a <= l.len(), 0 <= j < r.len()
    ensures acc::<M, T>(acc::<M, T>(c, l, a, l.len() - 1), r, 0, j) == acc::<M, T>(c, l + r, a, l.len() + j)
{
    let x = seq![c] + l.subrange(a, l.len() as int);
    let y = r.subrange(0, j + 1);
    assert(seq![c] + (l + r).subrange(a, l.len() + j + 1) =~= x + y);
    lemma_fold_concat::<M, T>(x, y);
    lemma_fold_concat::<M, T>(seq![fold::<M, T>(x)], y);
    assert(fold::<M, T>(seq![fold::<M, T>(x)]) == fold::<M, T>(x));
}

proof fn lemma_lb_right<M, T: SegtreeItem<M>, F: Fn(&T) -> bool>(f: &F, c: T::V, s: Seq<T::V>, ls: Seq<T::V>, rs: Seq<T::V>, a: int,
        c2: T::V, a2: int, vl: int, out: (T, Option<usize>), went_left: bool)
    requires s == ls + rs, 0 <= a, 0 <= a2 < rs.len(), ls.len() >= 1, rs.len() >= 1, vl >= 0,
        forall|j: int| a2 <= j < rs.len() ==> #[trigger] acc::<M, T>(c2, rs, a2, j) == acc::<M, T>(c, s, a, ls.len() + j),
        went_left ==> a < ls.len() && a2 == 0 && forall|j: int| a <= j < ls.len() ==> !psat::<M, T, F>(f, #[trigger] acc::<M, T>(c, s, a, j)),
        !went_left ==> a >= ls.len() && a2 == a - ls.len(),
        lb_post::<M, T, F>(f, c2, rs, a2, vl + ls.len(), out),
    ensures lb_post::<M, T, F>(f, c, s, a, vl, out)
{
    match out.1 {
        Some(k) => {
            let kk = k - (vl + ls.len());
            assert(acc::<M, T>(c2, rs, a2, kk) == acc::<M, T>(c, s, a, ls.len() + kk));
            assert forall|j: int| a <= j < k - vl implies !psat::<M, T, F>(f, acc::<M, T>(c, s, a, j)) by {
                if j >= ls.len() {
                    let jj = j - ls.len();
                    assert(acc::<M, T>(c2, rs, a2, jj) == acc::<M, T>(c, s, a, ls.len() + jj));
                }
            }
        },
        None => {
            assert(acc::<M, T>(c2, rs, a2, rs.len() - 1) == acc::<M, T>(c, s, a, ls.len() + (rs.len() - 1)));
            assert forall|j: int| a <= j < s.len() implies !psat::<M, T, F>(f, acc::<M, T>(c, s, a, j)) by {
                if j >= ls.len() {
                    let jj = j - ls.len();
                    assert(acc::<M, T>(c2, rs, a2, jj) == acc::<M, T>(c, s, a, ls.len() + jj));
                }
            }
        },
    }
}

proof fn lemma_mono_right<M, T: SegtreeItem<M>, F: Fn(&T) -> bool>(f: &F, c: T::V, s: Seq<T::V>, ls: Seq<T::V>, rs: Seq<T::V>, a: int, c2: T::V, a2: int)
    requires s == ls + rs, 0 <= a, 0 <= a2, a <= ls.len() + a2,
        forall|j: int| a2 <= j < rs.len() ==> #[trigger] acc::<M, T>(c2, rs, a2, j) == acc::<M, T>(c, s, a, ls.len() + j),
        mono::<M, T, F>(f, c, s, a),
    ensures mono::<M, T, F>(f, c2, rs, a2)
{
    assert forall|j1: int, j2: int| a2 <= j1 <= j2 < rs.len() && psat::<M, T, F>(f, acc::<M, T>(c2, rs, a2, j1)) implies psat::<M, T, F>(f, acc::<M, T>(c2, rs, a2, j2)) by {
        assert(acc::<M, T>(c2, rs, a2, j1) == acc::<M, T>(c, s, a, ls.len() + j1));
        assert(acc::<M, T>(c2, rs, a2, j2) == acc::<M, T>(c, s, a, ls.len() + j2));
    }
}

// ---------------- shape: the implicit tree over [0, n-1] fits into 2*p2 slots ----------------
pub open spec fn is_pow2(c: int) -> bool decreases c { c == 1 || (c > 1 && c % 2 == 0 && is_pow2(c / 2)) }
pub open spec fn fits(len: int, i: int, vl: int, vr: int) -> bool decreases vr - vl {
    0 <= i < len && 0 <= vl <= vr && (vl < vr ==> fits(len, 2 * i + 1, vl, (vl + vr) / 2) && fits(len, 2 * i + 2, (vl + vr) / 2 + 1, vr))
}
proof fn lemma_fits(len: int, i: int, vl: int, vr: int, c: int)
    requires 0 <= i, 0 <= vl <= vr, is_pow2(c), vr - vl + 1 <= c, (i + 2) * c - 2 < len
    ensures fits(len, i, vl, vr)
    decreases vr - vl
{
    assert(i < len) by(nonlinear_arith) requires (i + 2) * c - 2 < len, c >= 1, i >= 0;
    if vl < vr {
        let m = (vl + vr) / 2;
        assert(c > 1);
        assert((2 * i + 1 + 2) * (c / 2) - 2 < len) by(nonlinear_arith) requires (i + 2) * c - 2 < len, c % 2 == 0, c >= 2, i >= 0;
        assert((2 * i + 2 + 2) * (c / 2) - 2 < len) by(nonlinear_arith) requires (i + 2) * c - 2 < len, c % 2 == 0, c >= 2, i >= 0;
        lemma_fits(len, 2 * i + 1, vl, m, c / 2);
        lemma_fits(len, 2 * i + 2, m + 1, vr, c / 2);
    }
}
// every node of subtree i carries value v
pub open spec fn sub_val<M, T: SegtreeItem<M>>(d: Seq<T>, i: int, v: T::V) -> bool {
    forall|j: int| 0 <= j < d.len() && desc(i, j) ==> #[trigger] d[j].val() == v
}
pub open spec fn const_seq<A>(n: int, v: A) -> Seq<A> { Seq::new(n as nat, |k: int| v) }
impl<M, T: SegtreeItem<M> + Clone> Segtree<T, M> {
    fn push_at(&mut self, i: usize)
        requires i * 2 + 2 < old(self).data.len(),
        ensures final(self).data.len() == old(self).data.len(),
            final(self).n == old(self).n,
            forall|j: int| 0 <= j < old(self).data.len() && j != i && j != 2*i+1 && j != 2*i+2 ==> final(self).data[j] == old(self).data[j],
            final(self).data[i as int].val() == old(self).data[i as int].val(),
            final(self).data[i as int].pend() == T::pid(),
            final(self).data[2*i+1].val() == T::act(old(self).data[i as int].pend(), old(self).data[2*i+1].val()),
            final(self).data[2*i+1].pend() == T::comp(old(self).data[2*i+1].pend(), old(self).data[i as int].pend()),
            final(self).data[2*i+2].val() == T::act(old(self).data[i as int].pend(), old(self).data[2*i+2].val()),
            final(self).data[2*i+2].pend() == T::comp(old(self).data[2*i+2].pend(), old(self).data[i as int].pend()),
    {
        let (left, right) = self.data.split_at_mut(i * 2 + 1);
        let (r1, r2) = right.split_at_mut(1);
        left[i].push(&mut r1[0], &mut r2[0]);
    }

    fn merge_at(&mut self, i: usize)
        requires i * 2 + 2 < old(self).data.len(),
        ensures final(self).data.len() == old(self).data.len(),
            final(self).n == old(self).n,
            forall|j: int| 0 <= j < old(self).data.len() && j != i ==> final(self).data[j] == old(self).data[j],
            final(self).data[i as int].val() == T::op(old(self).data[2*i+1].val(), old(self).data[2*i+2].val()),
            final(self).data[i as int].pend() == T::pid(),
    {
        let (left, right) = self.data.split_at_mut(i * 2 + 1);
        left[i].update(&right[0], &right[1]);
    }

    fn ask_internal(&mut self, l: usize, r: usize, i: usize, vl: usize, vr: usize) -> (res: T)
        requires wf::<M, T>(old(self).data@, i as int, vl as int, vr as int), vl <= l <= r <= vr, vr < usize::MAX / 4,
        ensures
            wf::<M, T>(final(self).data@, i as int, vl as int, vr as int),
            repr::<M, T>(final(self).data@, i as int, vl as int, vr as int) == repr::<M, T>(old(self).data@, i as int, vl as int, vr as int),
            outside_same(old(self).data@, final(self).data@, i as int),
            final(self).n == old(self).n,
            res.val() == fold::<M, T>(repr::<M, T>(old(self).data@, i as int, vl as int, vr as int).subrange(l - vl, r - vl + 1)),
        decreases vr - vl
    {
        proof { lemma_repr_len::<M, T>(self.data@, i as int, vl as int, vr as int); }
        if l == vl && r == vr {
            let res = self.data[i].clone();
            proof {
                T::law_clone(&self.data@[i as int], &res);
                let rp = repr::<M, T>(self.data@, i as int, vl as int, vr as int);
                assert(rp.subrange(0, rp.len() as int) =~= rp);
            }
            return res;
        }
        let ghost d0 = self.data@;
        proof { assert(wf::<M, T>(d0, 2 * i + 2, (vl + vr) / 2 + 1, vr as int)); }
        self.push_at(i);
        let ghost d1 = self.data@;
        proof { lemma_push::<M, T>(d0, d1, i as int, vl as int, vr as int);
            assert(desc(i as int, i as int)); assert(desc(i as int, 2 * i + 1)); assert(desc(i as int, 2 * i + 2));
            assert(outside_same(d0, d1, i as int)); }

        let m = (vl + vr) / 2;
        let ghost lrep = repr::<M, T>(d1, 2 * i + 1, vl as int, m as int);
        let ghost rrep = repr::<M, T>(d1, 2 * i + 2, m as int + 1, vr as int);
        proof {
            lemma_repr_len::<M, T>(d1, 2 * i + 1, vl as int, m as int);
            lemma_repr_len::<M, T>(d1, 2 * i + 2, m as int + 1, vr as int);
        }
        if r <= m {
            let res = self.ask_internal(l, r, i * 2 + 1, vl, m);
            proof {
                lemma_after_child::<M, T>(d1, self.data@, i as int, vl as int, vr as int, true);
                assert((lrep + rrep).subrange(l - vl, r - vl + 1) =~= lrep.subrange(l - vl, r - vl + 1));
                lemma_outside_trans::<T>(d0, d1, self.data@, i as int, true);
            }
            res
        } else if l > m {
            let res = self.ask_internal(l, r, i * 2 + 2, m + 1, vr);
            proof {
                lemma_after_child::<M, T>(d1, self.data@, i as int, vl as int, vr as int, false);
                assert((lrep + rrep).subrange(l - vl, r - vl + 1) =~= rrep.subrange(l - (m + 1), r - (m + 1) + 1));
                lemma_outside_trans::<T>(d0, d1, self.data@, i as int, false);
            }
            res
        } else {
            let a = self.ask_internal(l, m, i * 2 + 1, vl, m);
            let ghost d2 = self.data@;
            proof {
                lemma_after_child::<M, T>(d1, d2, i as int, vl as int, vr as int, true);
                lemma_outside_trans::<T>(d0, d1, d2, i as int, true);
            }
            let b = self.ask_internal(m + 1, r, i * 2 + 2, m + 1, vr);
            proof {
                lemma_after_child::<M, T>(d2, self.data@, i as int, vl as int, vr as int, false);
                lemma_outside_trans::<T>(d0, d2, self.data@, i as int, false);
                lemma_sub_split::<T::V>(lrep + rrep, lrep, rrep, l - vl, r - vl + 1);
                lemma_fold_concat::<M, T>(lrep.subrange(l - vl, lrep.len() as int), rrep.subrange(0, r - vl + 1 - lrep.len()));
            }
            T::merge(
                &a,
                &b,
            )
        }
    }

    fn modify_internal(&mut self, l: usize, r: usize, md: &M, i: usize, vl: usize, vr: usize)
        requires wf::<M, T>(old(self).data@, i as int, vl as int, vr as int), vl <= l <= r <= vr, vr < usize::MAX / 4,
        ensures
            wf::<M, T>(final(self).data@, i as int, vl as int, vr as int),
            repr::<M, T>(final(self).data@, i as int, vl as int, vr as int)
                == apply_range::<M, T>(repr::<M, T>(old(self).data@, i as int, vl as int, vr as int), l - vl, r - vl, T::mview(md)),
            outside_same(old(self).data@, final(self).data@, i as int),
            final(self).n == old(self).n,
        decreases vr - vl
    {
        let ghost d0 = self.data@;
        proof { lemma_repr_len::<M, T>(d0, i as int, vl as int, vr as int); }
        if l == vl && r == vr {
            self.data[i].modify(md);
            proof {
                assert(desc(i as int, i as int));
                lemma_apply_node::<M, T>(d0, self.data@, i as int, vl as int, vr as int, T::mview(md));
                assert(map_act::<M, T>(T::mview(md), repr::<M, T>(d0, i as int, vl as int, vr as int))
                    =~= apply_range::<M, T>(repr::<M, T>(d0, i as int, vl as int, vr as int), l - vl, r - vl, T::mview(md)));
            }
            return;
        }
        proof { assert(wf::<M, T>(d0, 2 * i + 2, (vl + vr) / 2 + 1, vr as int)); }
        self.push_at(i);
        let ghost d1 = self.data@;
        proof { lemma_push::<M, T>(d0, d1, i as int, vl as int, vr as int);
            assert(desc(i as int, i as int)); assert(desc(i as int, 2 * i + 1)); assert(desc(i as int, 2 * i + 2));
            assert(outside_same(d0, d1, i as int)); }

        let m = (vl + vr) / 2;
        let ghost lrep = repr::<M, T>(d1, 2 * i + 1, vl as int, m as int);
        let ghost rrep = repr::<M, T>(d1, 2 * i + 2, m as int + 1, vr as int);
        proof {
            lemma_repr_len::<M, T>(d1, 2 * i + 1, vl as int, m as int);
            lemma_repr_len::<M, T>(d1, 2 * i + 2, m as int + 1, vr as int);
        }
        if r <= m {
            self.modify_internal(l, r, md, i * 2 + 1, vl, m);
            proof {
                lemma_child_changed::<M, T>(d1, self.data@, i as int, vl as int, vr as int, true);
                lemma_outside_trans::<T>(d0, d1, self.data@, i as int, true);
            }
        } else if l > m {
            self.modify_internal(l, r, md, i * 2 + 2, m + 1, vr);
            proof {
                lemma_child_changed::<M, T>(d1, self.data@, i as int, vl as int, vr as int, false);
                lemma_outside_trans::<T>(d0, d1, self.data@, i as int, false);
            }
        } else {
            self.modify_internal(l, m, md, i * 2 + 1, vl, m);
            let ghost d2 = self.data@;
            proof {
                lemma_child_changed::<M, T>(d1, d2, i as int, vl as int, vr as int, true);
                lemma_outside_trans::<T>(d0, d1, d2, i as int, true);
            }
            self.modify_internal(m + 1, r, md, i * 2 + 2, m + 1, vr);
            proof {
                lemma_child_changed::<M, T>(d2, self.data@, i as int, vl as int, vr as int, false);
                lemma_outside_trans::<T>(d0, d2, self.data@, i as int, false);
            }
        }
        let ghost d3 = self.data@;
        self.merge_at(i);
        proof {
            lemma_merge::<M, T>(d3, self.data@, i as int, vl as int, vr as int);
            assert(outside_same(d0, self.data@, i as int));
            assert(repr::<M, T>(self.data@, i as int, vl as int, vr as int)
                =~= apply_range::<M, T>(lrep + rrep, l - vl, r - vl, T::mview(md)));
        }
    }

    fn lower_bound_internal<F>(
        &mut self,
        mut item: T,
        f: &F,
        l: usize,
        r: usize,
        i: usize,
        vl: usize,
        vr: usize,
    ) -> (out: (T, Option<usize>))
    where
        F: Fn(&T) -> bool,
        requires wf::<M, T>(old(self).data@, i as int, vl as int, vr as int), vl <= l <= r, r == vr, vr < usize::MAX / 4,
            fdet::<M, T, F>(f),
            mono::<M, T, F>(f, item.val(), repr::<M, T>(old(self).data@, i as int, vl as int, vr as int), l - vl),
        ensures
            wf::<M, T>(final(self).data@, i as int, vl as int, vr as int),
            repr::<M, T>(final(self).data@, i as int, vl as int, vr as int) == repr::<M, T>(old(self).data@, i as int, vl as int, vr as int),
            outside_same(old(self).data@, final(self).data@, i as int),
            final(self).n == old(self).n,
            lb_post::<M, T, F>(f, item.val(), repr::<M, T>(old(self).data@, i as int, vl as int, vr as int), l - vl, vl as int, out),
        decreases vr - vl
    {
        let ghost d0 = self.data@;
        let ghost s = repr::<M, T>(d0, i as int, vl as int, vr as int);
        let ghost c = item.val();
        let ghost a = l - vl;
        proof { lemma_repr_len::<M, T>(d0, i as int, vl as int, vr as int); }
        if l == vl && r == vr {
            let next = T::merge(&item, &self.data[i]);
            proof {
                lemma_wf_val::<M, T>(d0, i as int, vl as int, vr as int);
                assert(s.subrange(0, s.len() as int) =~= s);
                lemma_fold_concat::<M, T>(seq![c], s);
                assert(next.val() == acc::<M, T>(c, s, 0, s.len() - 1));
            }
            if !f(&next) {
                proof {
                    assert forall|j: int| a <= j < s.len() implies !psat::<M, T, F>(f, acc::<M, T>(c, s, a, j)) by {
                        if psat::<M, T, F>(f, acc::<M, T>(c, s, a, j)) {
                            assert(psat::<M, T, F>(f, acc::<M, T>(c, s, a, s.len() - 1)));
                            let t = choose|t: T| t.val() == next.val() && f.ensures((&t,), true);
                            assert(f.ensures((&next,), false));
                        }
                    }
                }
                return (next, None);
            }
            if vl == vr {
                proof { assert(psat::<M, T, F>(f, next.val())); }
                return (next, Some(vl));
            }
        }
        proof { assert(wf::<M, T>(d0, 2 * i + 2, (vl + vr) / 2 + 1, vr as int)); }
        self.push_at(i);
        let ghost d1 = self.data@;
        proof { lemma_push::<M, T>(d0, d1, i as int, vl as int, vr as int);
            assert(desc(i as int, i as int)); assert(desc(i as int, 2 * i + 1)); assert(desc(i as int, 2 * i + 2));
            assert(outside_same(d0, d1, i as int)); }

        let m = (vl + vr) / 2;
        let ghost ls = repr::<M, T>(d1, 2 * i + 1, vl as int, m as int);
        let ghost rs = repr::<M, T>(d1, 2 * i + 2, m as int + 1, vr as int);
        proof {
            lemma_repr_len::<M, T>(d1, 2 * i + 1, vl as int, m as int);
            lemma_repr_len::<M, T>(d1, 2 * i + 2, m as int + 1, vr as int);
        }
        let ghost mut dmid = d1;
        if l <= m {
            proof {
                assert forall|j1: int, j2: int| a <= j1 <= j2 < ls.len() && psat::<M, T, F>(f, acc::<M, T>(c, ls, a, j1)) implies psat::<M, T, F>(f, acc::<M, T>(c, ls, a, j2)) by {
                    lemma_acc_left::<M, T>(c, ls, rs, a, j1); lemma_acc_left::<M, T>(c, ls, rs, a, j2);
                }
            }
            let (left_item, left_res) = self.lower_bound_internal(item, f, l, m, i * 2 + 1, vl, m);
            proof {
                lemma_after_child::<M, T>(d1, self.data@, i as int, vl as int, vr as int, true);
                lemma_outside_trans::<T>(d0, d1, self.data@, i as int, true);
                dmid = self.data@;
                assert forall|j: int| a <= j < ls.len() implies acc::<M, T>(c, ls, a, j) == acc::<M, T>(c, s, a, j) by { lemma_acc_left::<M, T>(c, ls, rs, a, j); }
            }
            if left_res.is_some() {
                return (left_item, left_res);
            }
            item = left_item;
        }
        let ghost c2 = item.val();
        let ghost a2 = if l <= m { 0 } else { l - (m + 1) };
        proof {
            // relate accumulations in the right child to accumulations in this node
            assert forall|j: int| a2 <= j < rs.len() implies acc::<M, T>(c2, rs, a2, j) == acc::<M, T>(c, s, a, ls.len() + j) by {
                if l <= m {
                    lemma_acc_right::<M, T>(c, ls, rs, a, j);
                } else {
                    assert((ls + rs).subrange(a, ls.len() + j + 1) =~= rs.subrange(a2, j + 1));
                }
            }
            assert(wf::<M, T>(dmid, 2 * i + 2, m as int + 1, vr as int));
            assert(s == ls + rs);
            lemma_mono_right::<M, T, F>(f, c, s, ls, rs, a, c2, a2);
        }
        let out = self.lower_bound_internal(item, f, l.max(m + 1), r, i * 2 + 2, m + 1, vr);
        proof {
            lemma_after_child::<M, T>(dmid, self.data@, i as int, vl as int, vr as int, false);
            lemma_outside_trans::<T>(d0, dmid, self.data@, i as int, false);
            lemma_lb_right::<M, T, F>(f, c, s, ls, rs, a, c2, a2, vl as int, out, l <= m);
        }
        out
    }

    fn set_internal(&mut self, ind: usize, value: T, i: usize, vl: usize, vr: usize)
        requires wf::<M, T>(old(self).data@, i as int, vl as int, vr as int), vl <= ind <= vr, vr < usize::MAX / 4,
        ensures
            wf::<M, T>(final(self).data@, i as int, vl as int, vr as int),
            repr::<M, T>(final(self).data@, i as int, vl as int, vr as int)
                == repr::<M, T>(old(self).data@, i as int, vl as int, vr as int).update(ind - vl, value.val()),
            outside_same(old(self).data@, final(self).data@, i as int),
            final(self).n == old(self).n,
        decreases vr - vl
    {
        let ghost d0 = self.data@;
        proof { lemma_repr_len::<M, T>(d0, i as int, vl as int, vr as int); assert(desc(i as int, i as int)); }
        if vl == vr {
            self.data[i] = value;
            proof {
                assert(repr::<M, T>(self.data@, i as int, vl as int, vr as int) =~= repr::<M, T>(d0, i as int, vl as int, vr as int).update(ind - vl, value.val()));
            }
            return;
        }
        proof { assert(wf::<M, T>(d0, 2 * i + 2, (vl + vr) / 2 + 1, vr as int)); }
        self.push_at(i);
        let ghost d1 = self.data@;
        proof { lemma_push::<M, T>(d0, d1, i as int, vl as int, vr as int);
            assert(desc(i as int, 2 * i + 1)); assert(desc(i as int, 2 * i + 2));
            assert(outside_same(d0, d1, i as int)); }

        let m = (vl + vr) / 2;
        let ghost lrep = repr::<M, T>(d1, 2 * i + 1, vl as int, m as int);
        let ghost rrep = repr::<M, T>(d1, 2 * i + 2, m as int + 1, vr as int);
        proof {
            lemma_repr_len::<M, T>(d1, 2 * i + 1, vl as int, m as int);
            lemma_repr_len::<M, T>(d1, 2 * i + 2, m as int + 1, vr as int);
        }
        if ind <= m {
            self.set_internal(ind, value, i * 2 + 1, vl, m);
            proof {
                lemma_child_changed::<M, T>(d1, self.data@, i as int, vl as int, vr as int, true);
                lemma_outside_trans::<T>(d0, d1, self.data@, i as int, true);
            }
        } else {
            self.set_internal(ind, value, i * 2 + 2, m + 1, vr);
            proof {
                lemma_child_changed::<M, T>(d1, self.data@, i as int, vl as int, vr as int, false);
                lemma_outside_trans::<T>(d0, d1, self.data@, i as int, false);
            }
        }
        let ghost d3 = self.data@;
        self.merge_at(i);
        proof {
            lemma_merge::<M, T>(d3, self.data@, i as int, vl as int, vr as int);
            assert(outside_same(d0, self.data@, i as int));
            assert(repr::<M, T>(self.data@, i as int, vl as int, vr as int) =~= (lrep + rrep).update(ind - vl, value.val()));
        }
    }

    // ---------------- public wrappers (C01) ----------------
    pub open spec fn inv(&self) -> bool {
        1 <= self.n < usize::MAX / 4 && wf::<M, T>(self.data@, 0, 0, self.n - 1)
    }
    pub open spec fn view(&self) -> Seq<T::V> { repr::<M, T>(self.data@, 0, 0, self.n - 1) }

    pub fn set(&mut self, ind: usize, value: T)
        requires old(self).inv(),
        ensures final(self).inv(), ind < old(self).n, final(self).n == old(self).n,
            final(self).view() == old(self).view().update(ind as int, value.val()),
    {
        if !(ind < self.n) { reject(); }
        self.set_internal(ind, value, 0, 0, self.n - 1);
    }

    pub fn ask(&mut self, l: usize, r: usize) -> (res: T)
        requires old(self).inv(),
        ensures final(self).inv(), l <= r < old(self).n, final(self).n == old(self).n,
            final(self).view() == old(self).view(),
            res.val() == fold::<M, T>(old(self).view().subrange(l as int, r + 1)),
    {
        if !(l <= r) { reject(); }
        if !(r < self.n) { reject(); }
        self.ask_internal(l, r, 0, 0, self.n - 1)
    }

    pub fn modify(&mut self, l: usize, r: usize, md: &M)
        requires old(self).inv(),
        ensures final(self).inv(), l <= r < old(self).n, final(self).n == old(self).n,
            final(self).view() == apply_range::<M, T>(old(self).view(), l as int, r as int, T::mview(md)),
    {
        if !(l <= r) { reject(); }
        if !(r < self.n) { reject(); }
        self.modify_internal(l, r, md, 0, 0, self.n - 1)
    }

    pub fn new_raw(n: usize, value: T) -> (res: Self)
        requires n < usize::MAX / 8,
        ensures n != 0, res.n == n, fits(res.data@.len() as int, 0, 0, n - 1), sub_val::<M, T>(res.data@, 0, value.val()),
    {
        if !(n != 0) { reject(); }
        let mut p2: usize = 1;
        while p2 < n
            invariant is_pow2(p2 as int), p2 < 2 * n, n < usize::MAX / 8,
            decreases 2 * n - p2,
        {
            p2 *= 2;
        }
        let res = Self {
            n,
            data: vec![value; p2 * 2],
            phantom: std::marker::PhantomData,
        };
        proof {
            lemma_fits(res.data@.len() as int, 0, 0, n - 1, p2 as int);
            assert forall|j: int| 0 <= j < res.data@.len() implies #[trigger] res.data@[j].val() == value.val() by {
                T::law_clone(&value, &res.data@[j]);
            }
        }
        res
    }

    fn rebuild_empty(&mut self, i: usize, l: usize, r: usize)
        requires fits(old(self).data@.len() as int, i as int, l as int, r as int), r < usize::MAX / 4,
        ensures
            wf::<M, T>(final(self).data@, i as int, l as int, r as int),
            forall|v: T::V| sub_val::<M, T>(old(self).data@, i as int, v) ==> repr::<M, T>(final(self).data@, i as int, l as int, r as int) == const_seq((r - l + 1) as int, v),
            outside_same(old(self).data@, final(self).data@, i as int),
            final(self).n == old(self).n,
        decreases r - l
    {
        let ghost d0 = self.data@;
        proof { assert(desc(i as int, i as int)); }
        if l == r {
            proof {
                assert forall|v: T::V| sub_val::<M, T>(d0, i as int, v) implies repr::<M, T>(d0, i as int, l as int, r as int) == const_seq((r - l + 1) as int, v) by {
                    assert(repr::<M, T>(d0, i as int, l as int, r as int) =~= const_seq((r - l + 1) as int, v));
                }
            }
            return;
        }
        let m = (l + r) / 2;
        proof { assert(fits(d0.len() as int, 2 * i + 2, (l + r) / 2 + 1, r as int)); assert(fits(d0.len() as int, 2 * i + 1, l as int, (l + r) / 2));
            assert(d0.len() == self.data.len() as int); }
        self.rebuild_empty(i * 2 + 1, l, m);
        let ghost d1 = self.data@;
        self.rebuild_empty(i * 2 + 2, m + 1, r);
        let ghost d2 = self.data@;
        proof {
            assert forall|j: int| 0 <= j < d1.len() && desc(2 * i + 1, j) implies d1[j] == d2[j] by { if desc(2 * i + 2, j) { lemma_desc_disjoint(i as int, j); } }
            lemma_frame::<M, T>(d1, d2, 2 * i + 1, l as int, m as int);
            lemma_repr_len::<M, T>(d2, 2 * i + 1, l as int, m as int);
            lemma_repr_len::<M, T>(d2, 2 * i + 2, m as int + 1, r as int);
        }

        let (left, right) = self.data.split_at_mut(i * 2 + 1);
        left[i].update(&right[0], &right[1]);
        proof {
            lemma_merge::<M, T>(d2, self.data@, i as int, l as int, r as int);
            assert(outside_same(d0, self.data@, i as int)) by {
                assert forall|j: int| 0 <= j < d0.len() && !desc(i as int, j) implies d0[j] == self.data@[j] by {
                    if desc(2 * i + 1, j) { lemma_desc_child(i as int, j); }
                    if desc(2 * i + 2, j) { lemma_desc_child(i as int, j); }
                }
            }
            assert forall|v: T::V| sub_val::<M, T>(d0, i as int, v) implies repr::<M, T>(self.data@, i as int, l as int, r as int) == const_seq((r - l + 1) as int, v) by {
                assert(sub_val::<M, T>(d0, 2 * i + 1, v)) by { assert forall|j: int| 0 <= j < d0.len() && desc(2 * i + 1, j) implies #[trigger] d0[j].val() == v by { lemma_desc_child(i as int, j); } }
                assert(sub_val::<M, T>(d1, 2 * i + 2, v)) by {
                    assert forall|j: int| 0 <= j < d1.len() && desc(2 * i + 2, j) implies #[trigger] d1[j].val() == v by {
                        lemma_desc_child(i as int, j);
                        if desc(2 * i + 1, j) { lemma_desc_disjoint(i as int, j); }
                        assert(d0[j] == d1[j]);
                    }
                }
                assert(repr::<M, T>(self.data@, i as int, l as int, r as int) =~= const_seq((r - l + 1) as int, v));
            }
        }
    }

    pub fn new(n: usize, value: T) -> (res: Self)
        requires n < usize::MAX / 8,
        ensures res.inv(), res.n == n, res.view() == const_seq(n as int, value.val()),
    {
        let mut res = Self::new_raw(n, value);
        res.rebuild_empty(0, 0, res.n - 1);
        res
    }
}


// predicate holds on the aggregate of view[l..=r]
pub open spec fn sat_at<M, T: SegtreeItem<M>, F: Fn(&T) -> bool>(f: &F, s: Seq<T::V>, l: int, r: int) -> bool {
    psat::<M, T, F>(f, fold::<M, T>(s.subrange(l, r + 1)))
}
impl<M, T: SegtreeItem<M> + Clone + Default> Segtree<T, M> {
    /// Returns smallest r from `[l; n-1]` such that `f(ask(l, r)) == true`, or None if it's always false
    pub fn lower_bound<F>(&mut self, l: usize, f: F) -> (res: Option<usize>)
    where
        F: Fn(&T) -> bool,
        requires old(self).inv(), l < old(self).n, fdet::<M, T, F>(&f),
            // monotone along growing ranges starting at l
            forall|r1: int, r2: int| l <= r1 <= r2 < old(self).n && #[trigger] sat_at::<M, T, F>(&f, old(self).view(), l as int, r1)
                ==> #[trigger] sat_at::<M, T, F>(&f, old(self).view(), l as int, r2),
        ensures final(self).inv(), final(self).view() == old(self).view(), final(self).n == old(self).n,
            match res {
                Some(k) => l <= k < old(self).n && sat_at::<M, T, F>(&f, old(self).view(), l as int, k as int)
                    && forall|j: int| l <= j < k ==> !#[trigger] sat_at::<M, T, F>(&f, old(self).view(), l as int, j),
                None => forall|j: int| l <= j < old(self).n ==> !#[trigger] sat_at::<M, T, F>(&f, old(self).view(), l as int, j),
            },
    {
        let ghost s = self.view();
        let d = T::default();
        proof {
            lemma_repr_len::<M, T>(self.data@, 0, 0, self.n - 1);
            assert forall|j: int| l <= j < s.len() implies #[trigger] acc::<M, T>(d.val(), s, l as int, j) == fold::<M, T>(s.subrange(l as int, j + 1)) by {
                lemma_fold_concat::<M, T>(seq![d.val()], s.subrange(l as int, j + 1));
                T::law_default_left_id(d, fold::<M, T>(s.subrange(l as int, j + 1)));
            }
            assert(mono::<M, T, F>(&f, d.val(), s, l as int)) by {
                assert forall|j1: int, j2: int| l <= j1 <= j2 < s.len() && psat::<M, T, F>(&f, acc::<M, T>(d.val(), s, l as int, j1)) implies psat::<M, T, F>(&f, acc::<M, T>(d.val(), s, l as int, j2)) by {
                    assert(sat_at::<M, T, F>(&f, s, l as int, j1));
                    assert(sat_at::<M, T, F>(&f, s, l as int, j2));
                }
            }
        }
        let out = self.lower_bound_internal(d, &f, l, self.n - 1, 0, 0, self.n - 1);
        proof {
            assert forall|j: int| l <= j < s.len() implies sat_at::<M, T, F>(&f, s, l as int, j) == psat::<M, T, F>(&f, acc::<M, T>(d.val(), s, l as int, j)) by {
                assert(acc::<M, T>(d.val(), s, l as int, j) == fold::<M, T>(s.subrange(l as int, j + 1)));
            }
        }
        out
            .1
    }
}
} // verus!
fn main() {}
