use vstd::prelude::*;
use vstd::std_specs::iter::IteratorSpec;
verus! {
fn take2<I: Iterator<Item = u32>>(data: &mut I) -> (r: (u32, u32))
    requires (*old(data)).obeys_prophetic_iter_laws(), (*old(data)).remaining().len() >= 2,
    ensures r.0 == (*old(data)).remaining()[0], r.1 == (*old(data)).remaining()[1], (*final(data)).remaining() == (*old(data)).remaining().skip(2),
{
    let a = data.next().unwrap();
    let b = data.next().unwrap();
    (a, b)
}
} // verus!
fn main() {}
