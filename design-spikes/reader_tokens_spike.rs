use vstd::prelude::*;
use std::io::Read;
verus! {
#[verifier::external_type_specification]
#[verifier::external_body]
pub struct ExError(std::io::Error);

#[verifier::external_trait_specification]
pub trait ExRead {
    type ExternalTraitSpecificationFor: std::io::Read;
}

// ghost state of the opaque byte source: the bytes it has not delivered yet
pub uninterp spec fn src_rest<R: ?Sized>(r: &Box<R>) -> Seq<u8>;
pub uninterp spec fn is_interrupted(e: &std::io::Error) -> bool;

pub assume_specification<R> [<std::boxed::Box<R> as std::io::Read>::read] (r: &mut std::boxed::Box<R>, buf: &mut [u8]) -> (res: std::result::Result<usize, std::io::Error>)
    where R: std::marker::MetaSized + std::io::Read + ?Sized,
    ensures
        final(buf)@.len() == old(buf)@.len(),
        match res {
            Ok(n) => {
                &&& n <= old(buf)@.len()
                &&& n <= src_rest(old(r)).len()
                &&& (n == 0 ==> (old(buf)@.len() == 0 || src_rest(old(r)).len() == 0))
                &&& final(buf)@.subrange(0, n as int) == src_rest(old(r)).subrange(0, n as int)
                &&& final(buf)@.subrange(n as int, old(buf)@.len() as int) == old(buf)@.subrange(n as int, old(buf)@.len() as int)
                &&& src_rest(final(r)) == src_rest(old(r)).skip(n as int)
            },
            Err(e) => false,
        };


pub open spec fn ws(b: u8) -> bool { b == 0x20 || b == 0x09 || b == 0x0A || b == 0x0C || b == 0x0D }
pub assume_specification [u8::is_ascii_whitespace] (b: &u8) -> (r: bool) ensures r == ws(*b);
pub open spec fn skip_ws(s: Seq<u8>) -> Seq<u8> decreases s.len() {
    if s.len() > 0 && ws(s[0]) { skip_ws(s.skip(1)) } else { s }
}


pub open spec fn dig(b: u8) -> bool { 0x30 <= b <= 0x39 }
pub assume_specification [u8::is_ascii_digit] (b: &u8) -> (r: bool) ensures r == dig(*b);
// number of leading non-whitespace bytes
pub open spec fn tok_len(s: Seq<u8>) -> nat decreases s.len() {
    if s.len() > 0 && !ws(s[0]) { 1 + tok_len(s.skip(1)) } else { 0 }
}
pub open spec fn all_dig(s: Seq<u8>) -> bool { forall|i: int| 0 <= i < s.len() ==> dig(#[trigger] s[i]) }
pub open spec fn dval(s: Seq<u8>) -> nat decreases s.len() {
    if s.len() == 0 { 0 } else { dval(s.drop_last()) * 10 + (s.last() - 0x30) as nat }
}
proof fn lemma_tok_len_bound(s: Seq<u8>)
    ensures tok_len(s) <= s.len(), tok_len(s) < s.len() ==> ws(s[tok_len(s) as int]),
        forall|i: int| 0 <= i < tok_len(s) ==> !ws(#[trigger] s[i]),
    decreases s.len()
{
    if s.len() > 0 && !ws(s[0]) {
        lemma_tok_len_bound(s.skip(1));
        assert forall|i: int| 0 <= i < tok_len(s) implies !ws(#[trigger] s[i]) by { if i > 0 { assert(s[i] == s.skip(1)[i - 1]); } }
        if tok_len(s) < s.len() { assert(s[tok_len(s) as int] == s.skip(1)[tok_len(s) - 1]); }
    }
}
proof fn lemma_dval_mono(s: Seq<u8>, k: int)
    requires 0 <= k <= s.len(), all_dig(s)
    ensures dval(s.take(k)) <= dval(s)
    decreases s.len() - k
{
    if k < s.len() {
        lemma_dval_mono(s, k + 1);
        assert(s.take(k + 1).drop_last() =~= s.take(k));
    } else { assert(s.take(k) =~= s); }
}

pub trait Readable: Sized {
    fn read(reader: &mut Reader) -> Self;
}

pub struct Reader<'a> {
    pub buf: [u8; Reader::BUF_SIZE],
    pub begin: usize,
    pub end: usize,
    pub stdin: Box<dyn Read + 'a>,
    pub eof: bool,
}

impl<'a> Reader<'a> {
    const BUF_SIZE: usize = 1 << 16;

    pub closed spec fn wf(&self) -> bool {
        self.begin <= self.end <= self.buf@.len() && (self.eof ==> self.begin == 0 && self.end == 0 && src_rest(&self.stdin).len() == 0)
    }
    pub closed spec fn unread(&self) -> Seq<u8> {
        self.buf@.subrange(self.begin as int, self.end as int) + src_rest(&self.stdin)
    }

    fn refill(&mut self)
        requires old(self).wf(), old(self).begin == old(self).end,
        ensures final(self).wf(), final(self).unread() == old(self).unread(),
            final(self).eof <==> old(self).unread().len() == 0,
            !final(self).eof ==> final(self).begin < final(self).end,
    {
        if self.eof {
            return;
        }

        if self.begin != 0 {
            self.buf.copy_within(self.begin..self.end, 0);
            self.end -= self.begin;
            self.begin = 0;
        }

        let bytes = self.stdin.read(&mut self.buf[self.end..]).unwrap();
        if bytes == 0 {
            self.eof = true;
        }
        self.end += bytes;
    }

    fn peek(&mut self) -> (r: u8)
        requires old(self).wf(),
        ensures final(self).wf(), final(self).unread() == old(self).unread(),
            old(self).unread().len() > 0 ==> r == old(self).unread()[0] && !final(self).eof && final(self).begin < final(self).end,
            old(self).unread().len() == 0 ==> final(self).eof,
    {
        if self.begin == self.end {
            self.refill();
        }
        self.buf[self.begin]
    }

    // consuming one buffered byte drops the first unread byte
    proof fn lemma_consume(self)
        requires self.wf(), self.begin < self.end
        ensures
            (Reader { begin: (self.begin + 1) as usize, ..self }).unread() == self.unread().skip(1),
            (Reader { begin: (self.begin + 1) as usize, ..self }).wf(),
            self.unread().len() > 0, self.unread()[0] == self.buf@[self.begin as int],
    {
        let r2 = Reader { begin: (self.begin + 1) as usize, ..self };
        assert(r2.unread() =~= self.unread().skip(1));
    }

    fn skip_whitespace(&mut self)
        requires old(self).wf(),
        ensures final(self).wf(), final(self).unread() == skip_ws(old(self).unread()),
            final(self).eof <==> skip_ws(old(self).unread()).len() == 0,
            !final(self).eof ==> final(self).begin < final(self).end,
    {
        while {
            if self.begin == self.end {
                self.refill();
            }
            !self.eof && self.peek().is_ascii_whitespace()
        }
            invariant self.wf(), skip_ws(self.unread()) == skip_ws(old(self).unread()),
            ensures self.wf(), self.unread() == skip_ws(old(self).unread()), self.eof <==> self.unread().len() == 0,
                !self.eof ==> self.begin < self.end,
            decreases self.unread().len(),
        {
            proof { self.lemma_consume(); }
            self.begin += 1;
            if self.begin == self.end {
                self.refill();
            }
        }
    }
}

pub open spec fn u64_token_ok(s: Seq<u8>) -> bool {
    let t = skip_ws(s);
    tok_len(t) > 0 && all_dig(t.take(tok_len(t) as int)) && dval(t.take(tok_len(t) as int)) <= u64::MAX
}
fn read_u64(reader: &mut Reader) -> (result: u64)
    requires old(reader).wf(), u64_token_ok(old(reader).unread()),
    ensures final(reader).wf(),
        result == dval(skip_ws(old(reader).unread()).take(tok_len(skip_ws(old(reader).unread())) as int)),
        final(reader).unread() == skip_ws(old(reader).unread()).skip(tok_len(skip_ws(old(reader).unread())) as int),
{
                reader.skip_whitespace();
                let ghost t = reader.unread();
                let ghost n = tok_len(t) as int;
                let ghost mut k: int = 0;
                proof { lemma_tok_len_bound(t); assert(t.skip(0) =~= t); assert(t.take(0) =~= Seq::<u8>::empty()); }
                let mut result: u64 = 0;
                let mut read_something = false;
                while {
                    if reader.begin == reader.end {
                        reader.refill();
                    }
                    !reader.eof && !reader.peek().is_ascii_whitespace()
                }
                    invariant reader.wf(), 0 <= k <= n, reader.unread() == t.skip(k), result == dval(t.take(k)), read_something == (k > 0),
                        n == tok_len(t), n <= t.len(), all_dig(t.take(n)), dval(t.take(n)) <= u64::MAX,
                        n < t.len() ==> ws(t[n]), forall|i: int| 0 <= i < n ==> !ws(#[trigger] t[i]),
                    ensures reader.wf(), k == n, reader.unread() == t.skip(k), result == dval(t.take(k)), read_something == (k > 0),
                    decreases t.len() - k,
                {
                    proof {
                        reader.lemma_consume();
                        assert(t.skip(k)[0] == t[k]);
                        assert(k < n);
                        assert(t.take(n)[k] == t[k]);
                        assert(t.take(k + 1).drop_last() =~= t.take(k));
                        assert(t.take(k + 1).last() == t[k]);
                        assert(t.take(n).take(k + 1) =~= t.take(k + 1));
                        lemma_dval_mono(t.take(n), k + 1);
                        assert(t.skip(k).skip(1) =~= t.skip(k + 1));
                    }
                    debug_assert!(reader.buf[reader.begin].is_ascii_digit());
                    result = result * 10 + (reader.buf[reader.begin] - b'0') as u64;
                    reader.begin += 1;
                    read_something = true;
                    proof { k = k + 1; }
                }
                debug_assert!(read_something);
                result
}

// signed tokens:  '-' digits | digits
pub open spec fn i64_token_ok(s: Seq<u8>) -> bool {
    let t = skip_ws(s); let n = tok_len(t) as int;
    n > 0 && (if t[0] == 0x2D {
        n > 1 && all_dig(t.subrange(1, n)) && dval(t.subrange(1, n)) <= 0x8000_0000_0000_0000
    } else {
        all_dig(t.take(n)) && dval(t.take(n)) <= 0x7fff_ffff_ffff_ffff
    })
}
pub open spec fn i64_token_val(s: Seq<u8>) -> int {
    let t = skip_ws(s); let n = tok_len(t) as int;
    if t[0] == 0x2D { -(dval(t.subrange(1, n)) as int) } else { dval(t.take(n)) as int }
}
fn read_i64(reader: &mut Reader) -> (result: i64)
    requires old(reader).wf(), i64_token_ok(old(reader).unread()),
    ensures final(reader).wf(),
        result == i64_token_val(old(reader).unread()),
        final(reader).unread() == skip_ws(old(reader).unread()).skip(tok_len(skip_ws(old(reader).unread())) as int),
{
                reader.skip_whitespace();
                let ghost t = reader.unread();
                let ghost n = tok_len(t) as int;
                proof { lemma_tok_len_bound(t); assert(t.skip(0) =~= t); }
                let mut result: i64 = 0;
                let mut read_something = false;
                if reader.peek() == b'-' {
                    let ghost u = t.subrange(1, n);     // the digits
                    let ghost mut k: int = 0;
                    proof { reader.lemma_consume(); assert(u.take(0) =~= Seq::<u8>::empty()); }
                    reader.begin += 1;
                    while {
                        if reader.begin == reader.end {
                            reader.refill();
                        }
                        !reader.eof && !reader.peek().is_ascii_whitespace()
                    }
                        invariant reader.wf(), 0 <= k <= n - 1, reader.unread() == t.skip(k + 1), result == -(dval(u.take(k)) as int), read_something == (k > 0),
                            n == tok_len(t), 1 <= n <= t.len(), u == t.subrange(1, n), all_dig(u), dval(u) <= 0x8000_0000_0000_0000,
                            n < t.len() ==> ws(t[n]), forall|i: int| 0 <= i < n ==> !ws(#[trigger] t[i]),
                        ensures reader.wf(), k == n - 1, reader.unread() == t.skip(k + 1), result == -(dval(u.take(k)) as int), read_something == (k > 0),
                        decreases t.len() - k,
                    {
                        proof {
                            reader.lemma_consume();
                            assert(t.skip(k + 1)[0] == t[k + 1]);
                            assert(k + 1 < n);
                            assert(u[k] == t[k + 1]);
                            assert(u.take(k + 1).drop_last() =~= u.take(k));
                            assert(u.take(k + 1).last() == u[k]);
                            lemma_dval_mono(u, k + 1);
                            assert(t.skip(k + 1).skip(1) =~= t.skip(k + 2));
                        }
                        debug_assert!(reader.buf[reader.begin].is_ascii_digit());
                        result = result * 10 - (reader.buf[reader.begin] - b'0') as i64;
                        reader.begin += 1;
                        read_something = true;
                        proof { k = k + 1; }
                    }
                    proof { assert(u.take(n - 1) =~= u); }
                } else {
                    let ghost mut k: int = 0;
                    proof { assert(t.take(0) =~= Seq::<u8>::empty()); }
                    while {
                        if reader.begin == reader.end {
                            reader.refill();
                        }
                        !reader.eof && !reader.peek().is_ascii_whitespace()
                    }
                        invariant reader.wf(), 0 <= k <= n, reader.unread() == t.skip(k), result == dval(t.take(k)), read_something == (k > 0),
                            n == tok_len(t), n <= t.len(), all_dig(t.take(n)), dval(t.take(n)) <= 0x7fff_ffff_ffff_ffff,
                            n < t.len() ==> ws(t[n]), forall|i: int| 0 <= i < n ==> !ws(#[trigger] t[i]),
                        ensures reader.wf(), k == n, reader.unread() == t.skip(k), result == dval(t.take(k)), read_something == (k > 0),
                        decreases t.len() - k,
                    {
                        proof {
                            reader.lemma_consume();
                            assert(t.skip(k)[0] == t[k]);
                            assert(k < n);
                            assert(t.take(n)[k] == t[k]);
                            assert(t.take(k + 1).drop_last() =~= t.take(k));
                            assert(t.take(k + 1).last() == t[k]);
                            assert(t.take(n).take(k + 1) =~= t.take(k + 1));
                            lemma_dval_mono(t.take(n), k + 1);
                            assert(t.skip(k).skip(1) =~= t.skip(k + 1));
                        }
                        debug_assert!(reader.buf[reader.begin].is_ascii_digit());
                        result = result * 10 + (reader.buf[reader.begin] - b'0') as i64;
                        reader.begin += 1;
                        read_something = true;
                        proof { k = k + 1; }
                    }
                }
                debug_assert!(read_something);
                result
}
} // verus!
fn main() {}
