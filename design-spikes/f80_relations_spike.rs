use vstd::prelude::*;
use std::cmp::Ordering;
verus! {
#[derive(Clone, Copy, PartialEq, Eq)]
#[repr(align(16))]
#[allow(non_camel_case_types)]
pub struct f80(pub [u8; 10]);

// abstract IEEE value of an 80-bit pattern (trusted x87 semantics)
pub uninterp spec fn is_nan(x: f80) -> bool;
pub uninterp spec fn ilt(x: f80, y: f80) -> bool;   // IEEE <, false if either is NaN
pub uninterp spec fn ieq(x: f80, y: f80) -> bool;   // IEEE ==, false if either is NaN, +0 == -0
pub broadcast axiom fn ax_order(x: f80, y: f80)
    ensures #![trigger ilt(x, y)] #![trigger ieq(x, y)]
        (is_nan(x) || is_nan(y)) ==> !ilt(x, y) && !ilt(y, x) && !ieq(x, y),
        (!is_nan(x) && !is_nan(y)) ==> (ilt(x, y) || ilt(y, x) || ieq(x, y)) && !(ilt(x, y) && ilt(y, x)) && !(ilt(x, y) && ieq(x, y)) && !(ilt(y, x) && ieq(x, y)),
        ieq(x, y) == ieq(y, x);

impl vstd::std_specs::cmp::PartialOrdSpecImpl for f80 {
    open spec fn obeys_partial_cmp_spec() -> bool { false }
    open spec fn partial_cmp_spec(&self, other: &f80) -> Option<Ordering> { None }
}
impl PartialOrd<f80> for f80 {
    #[verifier::external_body]
    fn lt(&self, rhs: &f80) -> (r: bool)
        ensures r == ilt(*self, *rhs)
    {
        let mut res = std::mem::MaybeUninit::<u32>::uninit();
        unsafe {
            let e: u32;
            core::arch::asm! {
                "fld     TBYTE PTR [{0}]",
                "fld     TBYTE PTR [{1}]",
                "fcomip  st, st(1)",
                "fstp    st(0)",
                "seta    al",
                in(reg) self.0.as_ptr(),
                in(reg) rhs.0.as_ptr(),
                out("eax") e,
                options(nostack)
            }
            *res.as_mut_ptr() = e;
            (res.assume_init() & 1) > 0
        }
    }

    fn gt(&self, rhs: &f80) -> (r: bool)
        ensures r == ilt(*rhs, *self)
    {
        rhs.lt(self)
    }

    fn le(&self, rhs: &f80) -> (r: bool)
        ensures (!is_nan(*self) && !is_nan(*rhs)) ==> r == (ilt(*self, *rhs) || ieq(*self, *rhs)),
            (is_nan(*self) || is_nan(*rhs)) ==> !r,      // IEEE: unordered  (KNOWN to fail on the pinned tree)
    {
        broadcast use ax_order;
        !self.gt(rhs)
    }

    fn ge(&self, rhs: &f80) -> (r: bool)
        ensures (!is_nan(*self) && !is_nan(*rhs)) ==> r == (ilt(*rhs, *self) || ieq(*self, *rhs)),
            (is_nan(*self) || is_nan(*rhs)) ==> !r,
    {
        broadcast use ax_order;
        !self.lt(rhs)
    }

    fn partial_cmp(&self, rhs: &f80) -> (r: Option<Ordering>)
        ensures (!is_nan(*self) && !is_nan(*rhs)) ==> r == (if ilt(*self, *rhs) { Some(Ordering::Less) } else if ieq(*self, *rhs) { Some(Ordering::Equal) } else { Some(Ordering::Greater) }),
            (is_nan(*self) || is_nan(*rhs)) ==> r.is_none(),
    {
        broadcast use ax_order;
        // same as f64
        match (*self <= *rhs, *self >= *rhs) {
            (false, false) => None,
            (false, true) => Some(Ordering::Greater),
            (true, false) => Some(Ordering::Less),
            (true, true) => Some(Ordering::Equal),
        }
    }
}
} // verus!
fn main() {}
