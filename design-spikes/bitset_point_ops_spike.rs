use vstd::prelude::*;
verus! {
global size_of usize == 8;
pub struct Bitset<const N: usize> {
    pub data: [u64; N],
}
pub open spec fn wbit(w: u64, k: int) -> bool { (w >> (k as u64)) & 1 == 1 }
pub open spec fn bit<const N: usize>(b: Bitset<N>, i: int) -> bool { wbit(b.data@[i / 64], i % 64) }

proof fn lemma_set(w: u64, k: u64, j: u64)
    requires k < 64, j < 64
    ensures wbit(w | (1u64 << k), j as int) == (if j == k { true } else { wbit(w, j as int) }),
            wbit(w & !(1u64 << k), j as int) == (if j == k { false } else { wbit(w, j as int) }),
            wbit(w ^ (1u64 << k), j as int) == (if j == k { !wbit(w, j as int) } else { wbit(w, j as int) }),
            wbit(0, j as int) == false,
{
    assert(((w | (1u64 << k)) >> j) & 1 == (if j == k { 1u64 } else { (w >> j) & 1 })) by(bit_vector) requires k < 64, j < 64;
    assert(((w & !(1u64 << k)) >> j) & 1 == (if j == k { 0u64 } else { (w >> j) & 1 })) by(bit_vector) requires k < 64, j < 64;
    assert(((w ^ (1u64 << k)) >> j) & 1 == (if j == k { ((w >> j) & 1) ^ 1 } else { (w >> j) & 1 })) by(bit_vector) requires k < 64, j < 64;
    assert((0u64 >> j) & 1 == 0u64) by(bit_vector);
    assert(((w >> j) & 1) == 0 || ((w >> j) & 1) == 1) by(bit_vector);
    assert(((w >> j) & 1 == 1) ==> (((w >> j) & 1) ^ 1) == 0) by(bit_vector);
    assert(((w >> j) & 1 == 0) ==> (((w >> j) & 1) ^ 1) == 1) by(bit_vector);
}

impl<const N: usize> Bitset<N> {
    pub fn new() -> (r: Self)
        ensures forall|i: int| 0 <= i < 64 * N ==> !bit(r, i)
    {
        let r = Self { data: [0; N] };
        proof { assert forall|i: int| 0 <= i < 64 * N implies !bit(r, i) by { lemma_set(0, 0, (i % 64) as u64); } }
        r
    }

    pub fn set(&mut self, x: usize)
        requires x < 64 * N,
        ensures forall|i: int| 0 <= i < 64 * N ==> bit(*final(self), i) == (i == x || bit(*old(self), i)),
    {
        self.data[x / 64] |= 1u64 << (x % 64);
        proof {
            assert forall|i: int| 0 <= i < 64 * N implies bit(*self, i) == (i == x || bit(*old(self), i)) by {
                if i / 64 == x as int / 64 { lemma_set(old(self).data@[i / 64], (x % 64) as u64, (i % 64) as u64); }
            }
        }
    }

    pub fn remove(&mut self, x: usize)
        requires x < 64 * N,
        ensures forall|i: int| 0 <= i < 64 * N ==> bit(*final(self), i) == (i != x && bit(*old(self), i)),
    {
        self.data[x / 64] &= !(1u64 << (x % 64));
        proof {
            assert forall|i: int| 0 <= i < 64 * N implies bit(*self, i) == (i != x && bit(*old(self), i)) by {
                if i / 64 == x as int / 64 { lemma_set(old(self).data@[i / 64], (x % 64) as u64, (i % 64) as u64); }
            }
        }
    }

    pub fn flip(&mut self, x: usize)
        requires x < 64 * N,
        ensures forall|i: int| 0 <= i < 64 * N ==> bit(*final(self), i) == (if i == x { !bit(*old(self), i) } else { bit(*old(self), i) }),
    {
        self.data[x / 64] ^= 1u64 << (x % 64);
        proof {
            assert forall|i: int| 0 <= i < 64 * N implies bit(*self, i) == (if i == x { !bit(*old(self), i) } else { bit(*old(self), i) }) by {
                if i / 64 == x as int / 64 { lemma_set(old(self).data@[i / 64], (x % 64) as u64, (i % 64) as u64); }
            }
        }
    }

    pub fn test(&self, x: usize) -> (r: bool)
        requires x < 64 * N,
        ensures r == bit(*self, x as int),
    {
        proof {
            let w = self.data@[x as int / 64]; let k = (x % 64) as u64;
            assert((((w >> k) & 1) > 0) == ((w >> k) & 1 == 1)) by(bit_vector);
        }
        ((self.data[x / 64] >> (x % 64)) & 1) > 0
    }
}
} // verus!
fn main() {}
