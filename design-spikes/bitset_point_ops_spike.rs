use vstd::prelude::*;
verus! {
global size_of usize == 8;
pub struct Bitset<const N: usize> {
    pub data: [u64; N],
}
pub open spec fn wbit(w: u64, k: int) -> bool { (w >> (k as u64)) & 1 == 1 }
pub open spec fn bit<const N: usize>(b: Bitset<N>, i: int) -> bool { wbit(b.data@[i / 64], i % 64) }

proof fn lemma_set(w: u64, k: u64, j: u64)
    requires k < 64, j < 64
    ensures wbit(w | (1u64 << k), j as int) == (if j == k { true } else { wbit(w, j as int) }),
            wbit(w & !(1u64 << k), j as int) == (if j == k { false } else { wbit(w, j as int) }),
            wbit(w ^ (1u64 << k), j as int) == (if j == k { !wbit(w, j as int) } else { wbit(w, j as int) }),
            wbit(0, j as int) == false,
{
    assert(((w | (1u64 << k)) >> j) & 1 == (if j == k { 1u64 } else { (w >> j) & 1 })) by(bit_vector) requires k < 64, j < 64;
    assert(((w & !(1u64 << k)) >> j) & 1 == (if j == k { 0u64 } else { (w >> j) & 1 })) by(bit_vector) requires k < 64, j < 64;
    assert(((w ^ (1u64 << k)) >> j) & 1 == (if j == k { ((w >> j) & 1) ^ 1 } else { (w >> j) & 1 })) by(bit_vector) requires k < 64, j < 64;
    assert((0u64 >> j) & 1 == 0u64) by(bit_vector);
    assert(((w >> j) & 1) == 0 || ((w >> j) & 1) == 1) by(bit_vector);
    assert(((w >> j) & 1 == 1) ==> (((w >> j) & 1) ^ 1) == 0) by(bit_vector);
    assert(((w >> j) & 1 == 0) ==> (((w >> j) & 1) ^ 1) == 1) by(bit_vector);
}

impl<const N: usize> Bitset<N> {
    pub fn new() -> (r: Self)
        ensures forall|i: int| 0 <= i < 64 * N ==> !bit(r, i)
    {
        let r = Self { data: [0; N] };
        proof { assert forall|i: int| 0 <= i < 64 * N implies !bit(r, i) by { lemma_set(0, 0, (i % 64) as u64); } }
        r
    }

    pub fn set(&mut self, x: usize)
        requires x < 64 * N,
        ensures forall|i: int| 0 <= i < 64 * N ==> bit(*final(self), i) == (i == x || bit(*old(self), i)),
    {
        self.data[x / 64] |= 1u64 << (x % 64);
        proof {
            assert forall|i: int| 0 <= i < 64 * N implies bit(*self, i) == (i == x || bit(*old(self), i)) by {
                if i / 64 == x as int / 64 { lemma_set(old(self).data@[i / 64], (x % 64) as u64, (i % 64) as u64); }
            }
        }
    }

    pub fn remove(&mut self, x: usize)
        requires x < 64 * N,
        ensures forall|i: int| 0 <= i < 64 * N ==> bit(*final(self), i) == (i != x && bit(*old(self), i)),
    {
        self.data[x / 64] &= !(1u64 << (x % 64));
        proof {
            assert forall|i: int| 0 <= i < 64 * N implies bit(*self, i) == (i != x && bit(*old(self), i)) by {
                if i / 64 == x as int / 64 { lemma_set(old(self).data@[i / 64], (x % 64) as u64, (i % 64) as u64); }
            }
        }
    }

    pub fn flip(&mut self, x: usize)
        requires x < 64 * N,
        ensures forall|i: int| 0 <= i < 64 * N ==> bit(*final(self), i) == (if i == x { !bit(*old(self), i) } else { bit(*old(self), i) }),
    {
        self.data[x / 64] ^= 1u64 << (x % 64);
        proof {
            assert forall|i: int| 0 <= i < 64 * N implies bit(*self, i) == (if i == x { !bit(*old(self), i) } else { bit(*old(self), i) }) by {
                if i / 64 == x as int / 64 { lemma_set(old(self).data@[i / 64], (x % 64) as u64, (i % 64) as u64); }
            }
        }
    }

    pub fn test(&self, x: usize) -> (r: bool)
        requires x < 64 * N,
        ensures r == bit(*self, x as int),
    {
        proof {
            let w = self.data@[x as int / 64]; let k = (x % 64) as u64;
            assert((((w >> k) & 1) > 0) == ((w >> k) & 1 == 1)) by(bit_vector);
        }
        ((self.data[x / 64] >> (x % 64)) & 1) > 0
    }
}

pub struct BitsIter<'a, const N: usize> {
    pub data: &'a [u64; N],
    pub idx: usize,
}
pub open spec fn dbit<const N: usize>(d: &[u64; N], i: int) -> bool { wbit(d@[i / 64], i % 64) }

proof fn lemma_word_zero_tail(w: u64, k: u64)
    requires k < 64, (w >> k) == 0
    ensures forall|j: u64| k <= j < 64 ==> !wbit(w, j as int)
{
    assert forall|j: u64| k <= j < 64 implies !wbit(w, j as int) by {
        assert((w >> k) == 0 && k <= j && j < 64 ==> (w >> j) & 1 == 0) by(bit_vector);
    }
}
proof fn lemma_tz(w: u64, k: u64)
    requires k < 64, (w >> k) != 0
    ensures ({ let t = vstd::std_specs::bits::u64_trailing_zeros(w >> k) as u64;
        k + t < 64 && wbit(w, (k + t) as int) && forall|j: u64| k <= j < k + t ==> !wbit(w, j as int) })
{
    let v = w >> k;
    vstd::std_specs::bits::axiom_u64_trailing_zeros(v);
    let t = vstd::std_specs::bits::u64_trailing_zeros(v) as u64;
    assert(k < 64 && t < 64 && ((w >> k) >> t) & 1 == 1 ==> k + t < 64 && (w >> ((k + t) as u64)) & 1 == 1) by(bit_vector);
    assert forall|j: u64| k <= j < k + t implies !wbit(w, j as int) by {
        let d = (j - k) as u64;
        assert((v >> d) & 1 == 0);
        assert(k < 64 && d < 64 && k + d < 64 && j == k + d ==> ((w >> k) >> d) & 1 == (w >> j) & 1) by(bit_vector);
    }
}

impl<const N: usize> BitsIter<'_, N> {
    // body of `impl Iterator for BitsIter::next`
    fn next(&mut self) -> (r: Option<usize>)
        requires old(self).idx <= 64 * N, N < 0x100_0000_0000_0000,
        ensures final(self).data == old(self).data, final(self).idx <= 64 * N,
            match r {
                Some(i) => old(self).idx <= i < 64 * N && dbit(old(self).data, i as int) && final(self).idx == i + 1
                    && forall|j: int| old(self).idx <= j < i ==> !dbit(old(self).data, j),
                None => forall|j: int| old(self).idx <= j < 64 * N ==> !dbit(old(self).data, j),
            },
    {
        while self.idx < self.data.len() * 64 && (self.data[self.idx / 64] >> (self.idx % 64)) == 0
            invariant self.data == old(self).data, old(self).idx <= self.idx <= 64 * N, N < 0x100_0000_0000_0000,
                forall|j: int| old(self).idx <= j < self.idx ==> !dbit(self.data, j),
            decreases 64 * N - self.idx,
        {
            proof {
                let k = (self.idx % 64) as u64; let w = self.data@[self.idx as int / 64];
                lemma_word_zero_tail(w, k);
                let nx: usize = ((self.idx + 64) as usize) & !(63usize);
                let i0 = self.idx;
                assert(nx == ((i0 / 64 + 1) * 64) as usize) by(bit_vector) requires nx == ((i0 + 64) as usize) & !(63usize), i0 < 0x4000_0000_0000_0000usize;
                assert forall|j: int| self.idx <= j < nx implies !dbit(self.data, j) by {
                    assert(j / 64 == self.idx as int / 64);
                    assert(!wbit(w, (j % 64) as u64 as int));
                }
            }
            self.idx = (self.idx + 64) & !(63usize);
        }
        if self.idx >= self.data.len() * 64 {
            None
        } else {
            proof { lemma_tz(self.data@[self.idx as int / 64], (self.idx % 64) as u64); }
            self.idx += (self.data[self.idx / 64] >> (self.idx % 64)).trailing_zeros() as usize;
            self.idx += 1;
            Some(self.idx - 1)
        }
    }
}
} // verus!
fn main() {}
