use vstd::prelude::*;
verus! {

// ---------------- trait: real text + spec members ----------------
pub trait SegtreeItem<M = ()>: Sized {
    type V;
    type P;
    spec fn val(&self) -> Self::V;
    spec fn pend(&self) -> Self::P;
    spec fn op(a: Self::V, b: Self::V) -> Self::V;
    spec fn act(p: Self::P, v: Self::V) -> Self::V;
    spec fn comp(first: Self::P, then: Self::P) -> Self::P;
    spec fn pid() -> Self::P;
    spec fn mview(m: &M) -> Self::P;

    proof fn law_clone(a: &Self, b: &Self) where Self: Clone
        requires cloned(*a, *b)
        ensures a.val() == b.val(), a.pend() == b.pend();
    proof fn law_assoc(a: Self::V, b: Self::V, c: Self::V)
        ensures Self::op(Self::op(a, b), c) == Self::op(a, Self::op(b, c));
    proof fn law_act_id(v: Self::V)
        ensures Self::act(Self::pid(), v) == v;
    proof fn law_act_comp(p: Self::P, q: Self::P, v: Self::V)
        ensures Self::act(Self::comp(p, q), v) == Self::act(q, Self::act(p, v));
    proof fn law_distrib(p: Self::P, a: Self::V, b: Self::V)
        ensures Self::act(p, Self::op(a, b)) == Self::op(Self::act(p, a), Self::act(p, b));

    fn merge(left: &Self, right: &Self) -> (r: Self)
        ensures r.val() == Self::op(left.val(), right.val()), r.pend() == Self::pid();

    fn update(&mut self, left: &Self, right: &Self)
        ensures final(self).val() == Self::op(left.val(), right.val()), final(self).pend() == Self::pid()
    {
        *self = Self::merge(left, right);
    }

    fn modify(&mut self, _modifier: &M)
        ensures final(self).val() == Self::act(Self::mview(_modifier), old(self).val()),
                final(self).pend() == Self::comp(old(self).pend(), Self::mview(_modifier));

    fn push(&mut self, _left: &mut Self, _right: &mut Self)
        ensures final(self).val() == old(self).val(), final(self).pend() == Self::pid(),
            final(_left).val() == Self::act(old(self).pend(), old(_left).val()),
            final(_left).pend() == Self::comp(old(_left).pend(), old(self).pend()),
            final(_right).val() == Self::act(old(self).pend(), old(_right).val()),
            final(_right).pend() == Self::comp(old(_right).pend(), old(self).pend());
}


#[derive(Clone, Debug, Default)]
pub struct Combinator<U, V>(pub U, pub V);

impl<M, U: SegtreeItem<M>, V: SegtreeItem<M>> SegtreeItem<M> for Combinator<U, V> {
    type V = (U::V, <V as SegtreeItem<M>>::V);
    type P = (U::P, <V as SegtreeItem<M>>::P);
    open spec fn val(&self) -> Self::V { (self.0.val(), self.1.val()) }
    open spec fn pend(&self) -> Self::P { (self.0.pend(), self.1.pend()) }
    open spec fn op(a: Self::V, b: Self::V) -> Self::V { (U::op(a.0, b.0), V::op(a.1, b.1)) }
    open spec fn act(p: Self::P, v: Self::V) -> Self::V { (U::act(p.0, v.0), V::act(p.1, v.1)) }
    open spec fn comp(first: Self::P, then: Self::P) -> Self::P { (U::comp(first.0, then.0), V::comp(first.1, then.1)) }
    open spec fn pid() -> Self::P { (U::pid(), V::pid()) }
    open spec fn mview(m: &M) -> Self::P { (U::mview(m), V::mview(m)) }

    proof fn law_clone(a: &Self, b: &Self) { admit(); }
    proof fn law_assoc(a: Self::V, b: Self::V, c: Self::V) { U::law_assoc(a.0, b.0, c.0); V::law_assoc(a.1, b.1, c.1); }
    proof fn law_act_id(v: Self::V) { U::law_act_id(v.0); V::law_act_id(v.1); }
    proof fn law_act_comp(p: Self::P, q: Self::P, v: Self::V) { U::law_act_comp(p.0, q.0, v.0); V::law_act_comp(p.1, q.1, v.1); }
    proof fn law_distrib(p: Self::P, a: Self::V, b: Self::V) { U::law_distrib(p.0, a.0, b.0); V::law_distrib(p.1, a.1, b.1); }

    fn merge(left: &Self, right: &Self) -> Self {
        Self(U::merge(&left.0, &right.0), V::merge(&left.1, &right.1))
    }

    fn modify(&mut self, modifier: &M) {
        self.0.modify(modifier);
        self.1.modify(modifier);
    }

    fn push(&mut self, left: &mut Self, right: &mut Self) {
        self.0.push(&mut left.0, &mut right.0);
        self.1.push(&mut left.1, &mut right.1);
    }
}
} // verus!
fn main() {}
