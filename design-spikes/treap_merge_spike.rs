use vstd::prelude::*;
verus! {
// simplified algebra for the spike: elements int, aggregate = sum, pending = add, size tracked
pub trait TreapItem: Sized {
    spec fn own(&self) -> int;
    spec fn agg(&self) -> int;
    spec fn pend(&self) -> int;
    spec fn sz(&self) -> nat;

    fn update(&mut self, _left: Option<&Self>, _right: Option<&Self>)
        ensures final(self).own() == old(self).own(), final(self).pend() == old(self).pend(),
            final(self).agg() == (match _left { Some(l) => l.agg(), None => 0 }) + old(self).own() + (match _right { Some(r) => r.agg(), None => 0 }),
            final(self).sz() == (match _left { Some(l) => l.sz(), None => 0 }) + 1 + (match _right { Some(r) => r.sz(), None => 0 });
    fn push(&mut self, _left: Option<&mut Self>, _right: Option<&mut Self>)
        ensures final(self).own() == old(self).own(), final(self).agg() == old(self).agg(), final(self).pend() == 0, final(self).sz() == old(self).sz(),
            match _left { Some(l) => (*final(l)).own() == (*l).own() + old(self).pend() && (*final(l)).pend() == (*l).pend() + old(self).pend()
                                   && (*final(l)).agg() == (*l).agg() + old(self).pend() * (*l).sz() && (*final(l)).sz() == (*l).sz(), None => true },
            match _right { Some(r) => (*final(r)).own() == (*r).own() + old(self).pend() && (*final(r)).pend() == (*r).pend() + old(self).pend()
                                   && (*final(r)).agg() == (*r).agg() + old(self).pend() * (*r).sz() && (*final(r)).sz() == (*r).sz(), None => true };
}
pub trait TreapItemSized: TreapItem {
    fn size(&self) -> (r: usize) ensures r == self.sz();
}
type Priority = u32;
pub struct TreapNode<T> {
    pub item: T,
    pub priority: Priority,
    pub left: Option<Box<TreapNode<T>>>,
    pub right: Option<Box<TreapNode<T>>>,
}

pub open spec fn shift(s: Seq<int>, d: int) -> Seq<int> { s.map_values(|x: int| x + d) }
pub open spec fn sum(s: Seq<int>) -> int decreases s.len() { if s.len() == 0 { 0 } else { sum(s.drop_last()) + s.last() } }

pub open spec fn oelems<T: TreapItem>(o: Option<Box<TreapNode<T>>>) -> Seq<int> decreases o {
    match o { Some(b) => nelems(*b), None => Seq::<int>::empty() }
}
pub open spec fn nelems<T: TreapItem>(n: TreapNode<T>) -> Seq<int> decreases n {
    shift(oelems(n.left), n.item.pend()) + seq![n.item.own()] + shift(oelems(n.right), n.item.pend())
}
pub open spec fn owf<T: TreapItem>(o: Option<Box<TreapNode<T>>>) -> bool decreases o {
    match o { Some(b) => nwf(*b), None => true }
}
pub open spec fn nwf<T: TreapItem>(n: TreapNode<T>) -> bool decreases n {
    owf(n.left) && owf(n.right) && n.item.agg() == sum(nelems(n)) && n.item.sz() == nelems(n).len()
    && (match n.left { Some(b) => n.priority <= b.priority, None => true })
    && (match n.right { Some(b) => n.priority <= b.priority, None => true })
}
pub open spec fn oprio_ge<T: TreapItem>(o: Option<Box<TreapNode<T>>>, p: Priority) -> bool {
    match o { Some(b) => p <= b.priority, None => true }
}


proof fn lemma_shift_shift(s: Seq<int>, a: int, b: int)
    ensures shift(shift(s, a), b) == shift(s, a + b)
{ assert(shift(shift(s, a), b) =~= shift(s, a + b)); }
proof fn lemma_shift_zero(s: Seq<int>) ensures shift(s, 0) == s { assert(shift(s, 0) =~= s); }
proof fn lemma_shift_concat(s: Seq<int>, t: Seq<int>, a: int)
    ensures shift(s + t, a) == shift(s, a) + shift(t, a)
{ assert(shift(s + t, a) =~= shift(s, a) + shift(t, a)); }
proof fn lemma_sum_shift(s: Seq<int>, a: int)
    ensures sum(shift(s, a)) == sum(s) + a * s.len()
    decreases s.len()
{
    if s.len() > 0 {
        assert(shift(s, a).drop_last() =~= shift(s.drop_last(), a));
        lemma_sum_shift(s.drop_last(), a);
        assert(a * s.len() == a * (s.len() - 1) + a) by(nonlinear_arith);
    }
}
proof fn lemma_sum_one(x: int) ensures sum(seq![x]) == x {
    assert(seq![x].drop_last() =~= Seq::<int>::empty());
    assert(sum(Seq::<int>::empty()) == 0);
    assert(seq![x].last() == x);
}
proof fn lemma_sum_concat(s: Seq<int>, t: Seq<int>)
    ensures sum(s + t) == sum(s) + sum(t)
    decreases t.len()
{
    if t.len() == 0 { assert(s + t =~= s); } else {
        assert((s + t).drop_last() =~= s + t.drop_last());
        lemma_sum_concat(s, t.drop_last());
    }
}
// a child whose item received a pending add p (own, pend, agg updated), children untouched
proof fn lemma_child_pushed<T: TreapItem>(c0: TreapNode<T>, c1: TreapNode<T>, p: int)
    requires nwf(c0), c1.left == c0.left, c1.right == c0.right, c1.priority == c0.priority,
        c1.item.own() == c0.item.own() + p, c1.item.pend() == c0.item.pend() + p,
        c1.item.agg() == c0.item.agg() + p * c0.item.sz(), c1.item.sz() == c0.item.sz(),
    ensures nwf(c1), nelems(c1) == shift(nelems(c0), p)
{
    let l = oelems(c0.left); let r = oelems(c0.right); let q = c0.item.pend();
    lemma_shift_shift(l, q, p); lemma_shift_shift(r, q, p);
    lemma_shift_concat(shift(l, q) + seq![c0.item.own()], shift(r, q), p);
    lemma_shift_concat(shift(l, q), seq![c0.item.own()], p);
    assert(shift(seq![c0.item.own()], p) =~= seq![c0.item.own() + p]);
    lemma_sum_shift(nelems(c0), p);
    assert(shift(nelems(c0), p).len() == nelems(c0).len());
}
impl<T: TreapItem> TreapNode<T> {
    pub fn update(&mut self)
        ensures final(self).left == old(self).left, final(self).right == old(self).right, final(self).priority == old(self).priority,
           final(self).item.own() == old(self).item.own(), final(self).item.pend() == old(self).item.pend(),
           final(self).item.agg() == (match old(self).left { Some(l) => l.item.agg(), None => 0 }) + old(self).item.own() + (match old(self).right { Some(r) => r.item.agg(), None => 0 }),
           final(self).item.sz() == (match old(self).left { Some(l) => l.item.sz(), None => 0 }) + 1 + (match old(self).right { Some(r) => r.item.sz(), None => 0 }),
    {
        self.item.update(
            self.left.as_ref().map(|x: &Box<TreapNode<T>>| -> (r: &T) ensures r == &x.item { &x.item }),
            self.right.as_ref().map(|x: &Box<TreapNode<T>>| -> (r: &T) ensures r == &x.item { &x.item }),
        );
    }

    pub fn push(&mut self)
        requires nwf(*old(self)),
        ensures nwf(*final(self)), final(self).priority == old(self).priority,
           final(self).item.own() == old(self).item.own(), final(self).item.pend() == 0,
           final(self).item.agg() == old(self).item.agg(), final(self).item.sz() == old(self).item.sz(),
           nelems(*final(self)) == nelems(*old(self)),
           oelems(final(self).left) == shift(oelems(old(self).left), old(self).item.pend()),
           oelems(final(self).right) == shift(oelems(old(self).right), old(self).item.pend()),
           old(self).left.is_some() == final(self).left.is_some(), old(self).right.is_some() == final(self).right.is_some(),
           oprio_ge(final(self).left, final(self).priority), oprio_ge(final(self).right, final(self).priority),
           match (old(self).left, final(self).left) { (Some(a), Some(b)) => a.priority == b.priority, _ => true },
           match (old(self).right, final(self).right) { (Some(a), Some(b)) => a.priority == b.priority, _ => true },
    {
        self.item.push(
            self.left.as_mut().map(|i: &mut Box<TreapNode<T>>| -> (r: &mut T)
                ensures *r == old(i).item, *final(r) == final(i).item, final(i).left == old(i).left, final(i).right == old(i).right, final(i).priority == old(i).priority
                { &mut i.item }),
            self.right.as_mut().map(|i: &mut Box<TreapNode<T>>| -> (r: &mut T)
                ensures *r == old(i).item, *final(r) == final(i).item, final(i).left == old(i).left, final(i).right == old(i).right, final(i).priority == old(i).priority
                { &mut i.item }),
        );
        proof {
            let p = old(self).item.pend();
            match old(self).left { Some(c0) => { lemma_child_pushed(*c0, *self.left.unwrap(), p); }, None => {} }
            match old(self).right { Some(c0) => { lemma_child_pushed(*c0, *self.right.unwrap(), p); }, None => {} }
            lemma_shift_zero(oelems(self.left)); lemma_shift_zero(oelems(self.right));
        }
    }

    pub fn merge(mut left: Option<Box<Self>>, mut right: Option<Box<Self>>) -> (res: Option<Box<Self>>)
        requires owf(left), owf(right),
        ensures owf(res), oelems(res) == oelems(left) + oelems(right),
            match res {
                Some(r) => (match left { Some(l) => r.priority <= l.priority, None => true }) && (match right { Some(q) => r.priority <= q.priority, None => true })
                    && ((match left { Some(l) => r.priority == l.priority, None => false }) || (match right { Some(q) => r.priority == q.priority, None => false })),
                None => left.is_none() && right.is_none(),
            },
        decreases oelems(left).len() + oelems(right).len()
    {
        if left.is_none() {
            proof { assert(oelems(left) + oelems(right) =~= oelems(right)); }
            right
        } else if right.is_none() {
            proof { assert(oelems(left) + oelems(right) =~= oelems(left)); }
            left
        } else if left.as_ref().unwrap().priority < right.as_ref().unwrap().priority {
            let ghost l0 = *left.unwrap();
            left.as_mut().unwrap().push();
            let ghost l1 = *left.unwrap();
            let m = left.as_mut().unwrap().right.take();
            let mr = Self::merge(m, right);
            left.as_mut().unwrap().right = mr;
            let ghost l2 = *left.unwrap();
            left.as_mut().unwrap().update();
            proof {
                let l3 = *left.unwrap();
                lemma_shift_zero(oelems(l3.left)); lemma_shift_zero(oelems(l3.right));
                lemma_shift_zero(oelems(l1.left)); lemma_shift_zero(oelems(l1.right));
                lemma_sum_concat(oelems(l3.left) + seq![l3.item.own()], oelems(l3.right));
                lemma_sum_concat(oelems(l3.left), seq![l3.item.own()]);
                lemma_sum_one(l3.item.own());
                assert(nelems(l3) =~= nelems(l0) + oelems(right));
                assert(owf(l3.left)); assert(owf(l3.right));
                assert(l3.item.sz() == nelems(l3).len());
                assert(l3.item.agg() == sum(nelems(l3)));
                assert(oprio_ge(l3.left, l3.priority)); assert(oprio_ge(l3.right, l3.priority));
                assert(nwf(l3));
            }
            left
        } else {
            let ghost r0 = *right.unwrap();
            right.as_mut().unwrap().push();
            let ghost r1 = *right.unwrap();
            let m = right.as_mut().unwrap().left.take();
            let ml = Self::merge(left, m);
            right.as_mut().unwrap().left = ml;
            right.as_mut().unwrap().update();
            proof {
                let r3 = *right.unwrap();
                lemma_shift_zero(oelems(r3.left)); lemma_shift_zero(oelems(r3.right));
                lemma_shift_zero(oelems(r1.left)); lemma_shift_zero(oelems(r1.right));
                lemma_sum_concat(oelems(r3.left) + seq![r3.item.own()], oelems(r3.right));
                lemma_sum_concat(oelems(r3.left), seq![r3.item.own()]);
                lemma_sum_one(r3.item.own());
                assert(nelems(r3) =~= oelems(left) + nelems(r0));
                assert(owf(r3.left)); assert(owf(r3.right));
                assert(r3.item.sz() == nelems(r3).len());
                assert(r3.item.agg() == sum(nelems(r3)));
                assert(oprio_ge(r3.left, r3.priority)); assert(oprio_ge(r3.right, r3.priority));
                assert(nwf(r3));
            }
            right
        }
    }
}

impl<T> TreapNode<T>
where
    T: TreapItem + TreapItemSized,
{
    pub fn split_at(mut root: Option<Box<Self>>, pos: usize) -> (res: (Option<Box<Self>>, Option<Box<Self>>))
        requires owf(root), pos <= oelems(root).len(),
        ensures owf(res.0), owf(res.1),
            oelems(res.0) == oelems(root).subrange(0, pos as int),
            oelems(res.1) == oelems(root).subrange(pos as int, oelems(root).len() as int),
            match root { Some(r) => oprio_ge(res.0, r.priority) && oprio_ge(res.1, r.priority), None => res.0.is_none() && res.1.is_none() },
        decreases oelems(root).len()
    {
        if root.is_none() {
            proof { assert(oelems(root).subrange(0, 0) =~= oelems(root)); }
            return (None, None);
        }
        let ghost r0 = *root.unwrap();
        root.as_mut().unwrap().push();
        let ghost r1 = *root.unwrap();
        let ghost ll = oelems(r1.left).len() as int;
        let ghost rl = oelems(r1.right).len() as int;
        proof { lemma_shift_zero(oelems(r1.left)); lemma_shift_zero(oelems(r1.right));
            assert(nelems(r1) =~= oelems(r1.left) + seq![r1.item.own()] + oelems(r1.right));
            assert(nelems(r0).len() == ll + 1 + rl);
            match r1.left { Some(c) => { assert(nwf(*c)); assert(c.item.sz() == ll); }, None => { assert(ll == 0); } }
            assert(owf(r1.left)); assert(owf(r1.right));
        }
        if pos > root.as_ref().unwrap().left.as_ref().map(|i: &Box<TreapNode<T>>| -> (r: usize) ensures r == i.item.sz() { i.item.size() }).unwrap_or(0) {
            let (a, b) = Self::split_at(
                root.as_mut().unwrap().right.take(),
                pos - root.as_ref().unwrap().left.as_ref().map(|i: &Box<TreapNode<T>>| -> (r: usize) ensures r == i.item.sz() { i.item.size() }).unwrap_or(0) - 1,
            );
            root.as_mut().unwrap().right = a;
            root.as_mut().unwrap().update();
            proof {
                let r3 = *root.unwrap();
                let ll = oelems(r1.left).len() as int;
                lemma_shift_zero(oelems(r3.left)); lemma_shift_zero(oelems(r3.right));
                lemma_sum_concat(oelems(r3.left) + seq![r3.item.own()], oelems(r3.right));
                lemma_sum_concat(oelems(r3.left), seq![r3.item.own()]);
                lemma_sum_one(r3.item.own());
                assert(oelems(r3.left) == oelems(r1.left));
                assert(oelems(r3.right) == oelems(r1.right).subrange(0, pos - ll - 1));
                assert(nelems(r3) =~= oelems(r3.left) + seq![r3.item.own()] + oelems(r3.right));
                assert(nelems(r3) =~= nelems(r0).subrange(0, pos as int));
                assert(oelems(b) =~= nelems(r0).subrange(pos as int, nelems(r0).len() as int));
                assert(owf(r3.left)); assert(owf(r3.right));
                assert(oprio_ge(r3.left, r3.priority)); assert(oprio_ge(r3.right, r3.priority));
                assert(nwf(r3));
            }
            (root, b)
        } else {
            let (a, b) = Self::split_at(root.as_mut().unwrap().left.take(), pos);
            root.as_mut().unwrap().left = b;
            root.as_mut().unwrap().update();
            proof {
                let r3 = *root.unwrap();
                lemma_shift_zero(oelems(r3.left)); lemma_shift_zero(oelems(r3.right));
                lemma_sum_concat(oelems(r3.left) + seq![r3.item.own()], oelems(r3.right));
                lemma_sum_concat(oelems(r3.left), seq![r3.item.own()]);
                lemma_sum_one(r3.item.own());
                assert(oelems(r3.right) == oelems(r1.right));
                assert(oelems(r3.left) == oelems(r1.left).subrange(pos as int, ll));
                assert(nelems(r3) =~= oelems(r3.left) + seq![r3.item.own()] + oelems(r3.right));
                assert(nelems(r3) =~= nelems(r0).subrange(pos as int, nelems(r0).len() as int));
                assert(oelems(a) =~= nelems(r0).subrange(0, pos as int));
                assert(owf(r3.left)); assert(owf(r3.right));
                assert(oprio_ge(r3.left, r3.priority)); assert(oprio_ge(r3.right, r3.priority));
                assert(nwf(r3));
            }
            (a, root)
        }
    }
}

pub struct Treap<T> {
    pub root: Option<Box<TreapNode<T>>>,
}
impl<T> Treap<T>
where
    T: TreapItem,
{
    pub fn first(&mut self) -> (res: Option<&T>)
        requires owf(old(self).root),
        ensures
            match res { Some(t) => oelems(old(self).root).len() > 0 && t.own() == oelems(old(self).root)[0], None => oelems(old(self).root).len() == 0 },
    {
        let mut node = self.root.as_mut()?;
        while node.left.is_some()
            invariant nwf(**node), nelems(**node).len() > 0, nelems(**node)[0] == oelems(old(self).root)[0],
            decreases nelems(**node).len(),
        {
            node.push();
            node = node.left.as_mut().unwrap();
        }
        Some(&node.item)
    }
}

#[verifier::external_body]
fn gen_priority() -> Priority { unimplemented!() }   // R10: `unsafe { RNG.next_raw() as Priority }` on a `static mut` — trusted, result unconstrained

pub trait TreapItemFresh: TreapItem {
    // a freshly created item (as passed to insert) is a singleton: no pending modification, aggregate = own, size 1
    spec fn fresh(&self) -> bool;
    proof fn law_fresh(&self) requires self.fresh() ensures self.pend() == 0, self.agg() == self.own(), self.sz() == 1;
}

impl<T> TreapNode<T> {
    pub fn new(item: T) -> (r: Self)
        ensures r.item == item, r.left.is_none(), r.right.is_none(),
    {
        Self {
            item,
            priority: gen_priority(),
            left: None,
            right: None,
        }
    }
}

impl<T> Treap<T>
where
    T: TreapItem + TreapItemSized + TreapItemFresh,
{
    pub fn insert_at(&mut self, pos: usize, item: T)
        requires owf(old(self).root), pos <= oelems(old(self).root).len(), item.fresh(),
        ensures owf(final(self).root), oelems(final(self).root) == oelems(old(self).root).insert(pos as int, item.own()),
    {
        let ghost e0 = oelems(self.root);
        let (left, right) = TreapNode::split_at(self.root.take(), pos);
        let ghost it = item;
        let nn = TreapNode::new(item);
        proof {
            it.law_fresh();
            lemma_shift_zero(Seq::<int>::empty());
            assert(nelems(nn) =~= seq![it.own()]);
            lemma_sum_one(it.own());
            assert(nwf(nn));
        }
        self.root = TreapNode::merge(TreapNode::merge(left, Some(Box::new(nn))), right);
        proof { assert(oelems(self.root) =~= e0.insert(pos as int, it.own())); }
    }

    pub fn remove_at(&mut self, pos: usize) -> (res: T)
        requires owf(old(self).root), pos < oelems(old(self).root).len(),
        ensures owf(final(self).root), oelems(final(self).root) == oelems(old(self).root).remove(pos as int),
            res.own() == oelems(old(self).root)[pos as int],
    {
        let ghost e0 = oelems(self.root);
        let (t1, t23) = TreapNode::split_at(self.root.take(), pos);
        let (t2, t3) = TreapNode::split_at(t23, 1);
        self.root = TreapNode::merge(t1, t3);
        proof {
            assert(oelems(self.root) =~= e0.remove(pos as int));
            assert(oelems(t2).len() == 1);
            let n2 = *t2.unwrap();
            // a one-element tree: no children, so its own value is the element
            assert(nelems(n2).len() == 1);
            assert(oelems(n2.left).len() == 0 && oelems(n2.right).len() == 0);
            assert(nelems(n2)[0] == n2.item.own());
        }
        t2.unwrap().item
    }
}
} // verus!
fn main() {}
