use vstd::prelude::*;
use vstd::arithmetic::div_mod::*;
use vstd::arithmetic::mul::*;
verus! {
pub assume_specification [i64::abs] (x: i64) -> (r: i64)
    requires x != i64::MIN,
    ensures r == (if x < 0 { -x } else { x as int });

pub trait ZeroOne {
    const ZERO: Self;
    const ONE: Self;
}
pub trait Integer: ZeroOne + Sized
{
    spec fn as_int(&self) -> int;
    spec fn abs_ok(&self) -> bool;
    fn abs(&self) -> (r: Self) requires self.abs_ok(), ensures r.as_int() == iabs(self.as_int());
    fn into_abs(self) -> (r: Self) requires self.abs_ok(), ensures r.as_int() == iabs(self.as_int());
}
impl ZeroOne for i64 {
    const ZERO: i64 = 0 as i64;
    const ONE: i64 = 1 as i64;
}
impl Integer for i64 {
    open spec fn as_int(&self) -> int { *self as int }
    open spec fn abs_ok(&self) -> bool { *self != i64::MIN }
    fn abs(&self) -> (r: Self)
    {
        <i64>::abs(*self)
    }
    fn into_abs(self) -> (r: Self)
    {
        <i64>::abs(self)
    }
}
type T = i64;

pub open spec fn iabs(x: int) -> int { if x < 0 { -x } else { x } }
// Euclid on naturals
pub open spec fn sgcd(a: nat, b: nat) -> nat decreases b {
    if b == 0 { a } else { sgcd(b, a % b) }
}


pub open spec fn imax(a: int, b: int) -> int { if a > b { a } else { b } }
pub const B: i64 = 0x10_0000;   // 2^20, B^3 = 2^60 fits i64

// truncating division facts (vstd models exec `/`, `%` on signed ints by rust_div / rust_rem)
pub open spec fn tdiv(x: int, y: int) -> int { rust_div(x, y) }
pub open spec fn trem(x: int, y: int) -> int { rust_rem(x, y) }

proof fn lemma_euc_neg_divisor(x: int, y: int)
    requires x >= 0, y < 0
    ensures x / y == -(x / (-y)), x % y == x % (-y)
{
    let q = x / (-y); let r = x % (-y);
    lemma_fundamental_div_mod(x, -y);
    lemma_mod_bound(x, -y);
    lemma_fundamental_div_mod(x, y);
    let q2 = x / y; let r2 = x % y;
    // Euclidean remainder is in [0, |y|) for any non-zero divisor
    assert(0 <= r2 < -y) by(nonlinear_arith) requires y < 0, r2 == x % y;
    let d = -y; let k = q + q2;
    assert(d * k == r2 - r) by(nonlinear_arith) requires x == (-y) * q + r, x == y * q2 + r2, d == -y, k == q + q2;
    if k >= 1 { assert(d * k >= d) by(nonlinear_arith) requires d > 0, k >= 1; }
    if k <= -1 { assert(d * k <= -d) by(nonlinear_arith) requires d > 0, k <= -1; }
    assert(k == 0);
    assert(d * 0 == 0);
}

proof fn lemma_trunc(x: int, y: int)
    requires y != 0
    ensures x == y * tdiv(x, y) + trem(x, y), iabs(trem(x, y)) < iabs(y), iabs(tdiv(x, y)) <= iabs(x),
        iabs(x) == iabs(tdiv(x, y)) * iabs(y) + iabs(trem(x, y)),
{
    let ax = iabs(x); let ay = iabs(y);
    lemma_fundamental_div_mod(ax, ay);
    lemma_mod_bound(ax, ay);
    lemma_div_pos_is_pos(ax, ay);
    let q = ax / ay; let r = ax % ay;
    assert(q <= ax) by(nonlinear_arith) requires ax == ay * q + r, r >= 0, ay >= 1, q >= 0;
    if y < 0 { lemma_euc_neg_divisor(ax, y); }
    if x == 0 { lemma_small_mod(0, ay as nat); lemma_div_basics_2(ay); assert(q == 0) by { lemma_basic_div(0, ay); } }
    // tdiv(x,y) = +-q, trem(x,y) = +-r with the sign of x
    assert(tdiv(x, y) == (if (x >= 0) == (y > 0) { q } else { -q }));
    assert(trem(x, y) == (if x >= 0 { r } else { -r }));
    assert(x == y * tdiv(x, y) + trem(x, y)) by(nonlinear_arith) requires ax == ay * q + r, ax == iabs(x), ay == iabs(y),
        tdiv(x, y) == (if (x >= 0) == (y > 0) { q } else { -q }), trem(x, y) == (if x >= 0 { r } else { -r });
    assert(q * ay == ay * q) by(nonlinear_arith);
}
pub fn gcd(a: T, b: T) -> (r: T)
    requires a != i64::MIN, b != i64::MIN,
    ensures r == sgcd(iabs(a as int) as nat, iabs(b as int) as nat), r >= 0,
{
    let mut a = a.into_abs();
    let mut b = b.into_abs();
    let ghost a0 = a; let ghost b0 = b;
    while b != T::ZERO
        invariant a >= 0, b >= 0, a0 >= 0, b0 >= 0, sgcd(a as nat, b as nat) == sgcd(a0 as nat, b0 as nat),
        decreases b,
    {
        proof { lemma_mod_bound(a as int, b as int); if a == 0 { lemma_small_mod(0, b as nat); }
            assert(sgcd(a as nat, b as nat) == sgcd(b as nat, (a as nat) % (b as nat))); }
        a = a % &b;
        std::mem::swap(&mut a, &mut b);
    }
    a
}

pub open spec fn solvable(a: int, b: int, c: int) -> bool { exists|x: int, y: int| #[trigger] lin(a, x, b, y) == c }
pub open spec fn lin(a: int, x: int, b: int, y: int) -> int { a * x + b * y }
pub open spec fn small(v: int) -> bool { -0x10_0000 <= v <= 0x10_0000 }

proof fn lemma_no_sol_base(b: int, c: int)
    requires b != 0, trem(c, b) != 0
    ensures !solvable(0, b, c)
{
    if solvable(0, b, c) {
        let (x, y) = choose|x: int, y: int| #[trigger] lin(0, x, b, y) == c;
        assert(0 * x == 0);
        // c == b*y  and  c == b*tdiv + trem with |trem| < |b|  ==> trem == 0
        lemma_trunc(c, b);
        let k = y - tdiv(c, b);
        assert(b * k == trem(c, b)) by(nonlinear_arith) requires b * y == c, c == b * tdiv(c, b) + trem(c, b), k == y - tdiv(c, b);
        if k >= 1 || k <= -1 { assert(iabs(b * k) >= iabs(b)) by(nonlinear_arith) requires k >= 1 || k <= -1; }
        assert(k == 0); assert(b * 0 == 0);
    }
}
proof fn lemma_no_sol_step(a: int, b: int, c: int)
    requires a != 0, !solvable(trem(b, a), a, c)
    ensures !solvable(a, b, c)
{
    if solvable(a, b, c) {
        let (x, y) = choose|x: int, y: int| #[trigger] lin(a, x, b, y) == c;
        lemma_trunc(b, a);
        let q = tdiv(b, a); let r = trem(b, a);
        assert(lin(r, y, a, x + q * y) == c) by(nonlinear_arith) requires a * x + b * y == c, b == a * q + r;
    }
}

pub fn egcd(a: T, b: T, c: T) -> (res: Option<(T, T)>)
    requires small(a as int), small(b as int), small(c as int), a != 0 || b != 0,
    ensures match res {
        Some((x, y)) => a * x + b * y == c && lin(a as int, x as int, b as int, y as int) == c
            && iabs(x as int) <= iabs(c as int) * imax(iabs(b as int), 1) && iabs(y as int) <= iabs(c as int) * imax(iabs(a as int), 1)
            && (a == 0 ==> x == 0),
        None => !solvable(a as int, b as int, c as int),
    },
    decreases iabs(a as int)
{
    if a == T::ZERO {
        proof { lemma_trunc(c as int, b as int); }
        if c.clone() % &b != T::ZERO {
            proof { lemma_no_sol_base(b as int, c as int); }
            return None;
        }
        proof {
            assert(0 * 0 == 0);
            assert(iabs(c as int) * 1 == iabs(c as int)) by(nonlinear_arith);
            assert(imax(iabs(0), 1) == 1);
            assert(iabs(tdiv(c as int, b as int)) <= iabs(c as int) * 1);
        }
        return Some((T::ZERO, c / &b));
    }
    proof { lemma_trunc(b as int, a as int); }
    let ghost q = tdiv(b as int, a as int); let ghost r = trem(b as int, a as int);
    proof { if !solvable(r, a as int, c as int) { lemma_no_sol_step(a as int, b as int, c as int); } }
    let (y0, x0) = egcd(b.clone() % &a, a.clone(), c)?;
    proof {
        let ac = iabs(c as int); let aa = iabs(a as int); let ab = iabs(b as int); let ar = iabs(r); let aq = iabs(q);
        // bounds from the recursive call (first argument r, second a)
        assert(iabs(y0 as int) <= ac * aa);
        assert(iabs(x0 as int) <= ac * imax(ar, 1));
        assert(ac * aa <= 0x10_0000 * 0x10_0000) by(nonlinear_arith) requires 0 <= ac <= 0x10_0000, 0 <= aa <= 0x10_0000;
        assert(iabs(q * y0) <= 0x10_0000 * (0x10_0000 * 0x10_0000)) by(nonlinear_arith) requires iabs(q) <= 0x10_0000, iabs(y0 as int) <= 0x10_0000 * 0x10_0000;
        assert(ac * imax(ar, 1) <= 0x10_0000 * 0x10_0000) by(nonlinear_arith) requires 0 <= ac <= 0x10_0000, 1 <= imax(ar, 1) <= 0x10_0000;
        // solution:  a*(x0 - q*y0) + b*y0 == r*y0 + a*x0 == c
        assert(a * (x0 - q * y0) + b * y0 == c) by(nonlinear_arith) requires r * y0 + a * x0 == c, b == a * q + r;
        // magnitude
        if r == 0 { assert(y0 == 0); assert(q * 0 == 0); assert(ac * 1 <= ac * imax(ab, 1)) by(nonlinear_arith) requires ac >= 0, imax(ab, 1) >= 1; }
        else {
            assert(iabs(x0 - q * y0) <= ac * ab) by(nonlinear_arith)
                requires iabs(x0 as int) <= ac * ar, iabs(y0 as int) <= ac * aa, ab == aq * aa + ar, aq == iabs(q), ac >= 0, aa >= 0, ar >= 1;
        }
    }
    Some((x0 - &((b / &a) * &y0), y0))
}

pub open spec fn cong(x: int, a: int, m: int) -> bool { (x - a) % m == 0 }

proof fn lemma_sgcd_pos_dvd(a: nat, b: nat)
    requires a > 0 || b > 0
    ensures sgcd(a, b) > 0, (a as int) % (sgcd(a, b) as int) == 0, (b as int) % (sgcd(a, b) as int) == 0
    decreases b
{
    if b == 0 { lemma_mod_self_0(a as int); lemma_small_mod(0, a); } else {
        lemma_mod_bound(a as int, b as int);
        lemma_sgcd_pos_dvd(b, a % b);
        let g = sgcd(a, b) as int;
        lemma_fundamental_div_mod(a as int, b as int);
        lemma_fundamental_div_mod(b as int, g); lemma_fundamental_div_mod((a % b) as int, g);
        let q = (a / b) as int; let bq = (b as int) / g; let rq = ((a % b) as int) / g;
        assert(a == g * (bq * q + rq)) by(nonlinear_arith) requires a == b * q + (a % b), b == g * bq, (a % b) == g * rq;
        lemma_mod_multiples_basic(bq * q + rq, g);
        assert(g * (bq * q + rq) == (bq * q + rq) * g) by(nonlinear_arith);
    }
}
proof fn lemma_mod_zero_mul(k: int, m: int)
    requires m > 0
    ensures (k * m) % m == 0, (m * k) % m == 0
{
    lemma_mod_multiples_basic(k, m);
    assert(k * m == m * k) by(nonlinear_arith);
}
proof fn lemma_mod_zero_add(x: int, y: int, m: int)
    requires m > 0, x % m == 0, y % m == 0
    ensures (x + y) % m == 0, (x - y) % m == 0
{
    lemma_fundamental_div_mod(x, m); lemma_fundamental_div_mod(y, m);
    assert(x + y == (x / m + y / m) * m) by(nonlinear_arith) requires x == m * (x / m), y == m * (y / m);
    assert(x - y == (x / m - y / m) * m) by(nonlinear_arith) requires x == m * (x / m), y == m * (y / m);
    lemma_mod_zero_mul(x / m + y / m, m); lemma_mod_zero_mul(x / m - y / m, m);
}

pub fn crt(a1: T, m1: T, a2: T, m2: T) -> (res: Option<T>)
    requires 1 <= m1 <= 0x10_0000, 1 <= m2 <= 0x10_0000, 0 <= a1 < m1, 0 <= a2 < m2,
    ensures match res {
        Some(r) => 0 <= r && r * sgcd(m1 as nat, m2 as nat) < m1 * m2 && r % m1 == a1 && r % m2 == a2,
        None => forall|x: int| !(cong(x, a1 as int, m1 as int) && cong(x, a2 as int, m2 as int)),
    },
{
    let g = gcd(m1.clone(), m2.clone());
    proof {
        lemma_sgcd_pos_dvd(m1 as nat, m2 as nat);
        // no solution of the congruences if the linear equation is unsolvable
        if !solvable(m1 as int, -(m2 as int), a2 - a1) {
            assert forall|x: int| !(cong(x, a1 as int, m1 as int) && cong(x, a2 as int, m2 as int)) by {
                if cong(x, a1 as int, m1 as int) && cong(x, a2 as int, m2 as int) {
                    lemma_fundamental_div_mod(x - a1, m1 as int); lemma_fundamental_div_mod(x - a2, m2 as int);
                    let s = (x - a1) / (m1 as int); let t = (x - a2) / (m2 as int);
                    assert(lin(m1 as int, s, -(m2 as int), t) == a2 - a1) by(nonlinear_arith) requires x - a1 == m1 * s, x - a2 == m2 * t;
                }
            }
        }
    }
    let (x, _) = egcd(m1.clone(), -m2.clone(), a2 - &a1)?;
    let ghost y = choose_y(m1 as int, m2 as int, x as int, a2 - a1);
    let ghost m2o = m2 as int;
    let m2 = m2 / &g;
    proof {
        lemma_trunc(m2o, g as int);
        lemma_fundamental_div_mod(m2o, g as int);
        assert(m2o >= 0 && g > 0);
        lemma_div_pos_is_pos(m2o, g as int);
        assert(m2 * g == m2o) by(nonlinear_arith) requires m2o == g * (m2o / (g as int)), m2 == m2o / (g as int);
        assert(m2 >= 1) by(nonlinear_arith) requires m2 * g == m2o, m2o >= 1, g >= 1, m2 >= 0;
        assert(m2 <= m2o) by(nonlinear_arith) requires m2 * g == m2o, g >= 1, m2 >= 0;
        lemma_trunc(x as int, m2 as int);
    }
    let ghost x0 = x as int;
    let x = (x % &m2 + &m2) % &m2;
    proof {
        // x == x0 (mod m2), 0 <= x < m2
        let t = trem(x0, m2 as int);
        assert(-(m2 as int) < t < m2);
        lemma_mod_bound(t + m2, m2 as int);
        if t + m2 == 0 { lemma_small_mod(0, m2 as nat); }
        assert(x == (t + m2) % (m2 as int));
        lemma_fundamental_div_mod(t + m2, m2 as int);
        let k = (t + m2) / (m2 as int);
        // x0 - x is a multiple of m2:  x0 = m2*q + t,  t + m2 = m2*k + x
        let q = tdiv(x0, m2 as int);
        assert(x0 - x == (m2 as int) * (q + k - 1)) by(nonlinear_arith) requires x0 == m2 * q + t, t + m2 == m2 * k + x;
        assert(m1 * x <= 0x10_0000 * 0x10_0000) by(nonlinear_arith) requires 0 <= x < m2, m2 <= 0x10_0000, 1 <= m1 <= 0x10_0000;
        assert(m1 * x >= 0) by(nonlinear_arith) requires 0 <= x, m1 >= 1;
        // result properties
        let r = m1 * x + a1;
        lemma_fundamental_div_mod_converse(r, m1 as int, x as int, a1 as int);
        assert(m1 * x + a1 == (x as int) * (m1 as int) + a1) by(nonlinear_arith);
        assert(r * g < m1 * m2o) by(nonlinear_arith) requires r == m1 * x + a1, 0 <= a1 < m1, 0 <= x < m2, m2 * g == m2o, g >= 1;
        // r == a2 (mod m2o):  m1*x0 - m2o*y == a2 - a1,  x0 - x == m2*(q+k-1),  m1 == g*m1g
        lemma_fundamental_div_mod(m1 as int, g as int);
        let m1g = (m1 as int) / (g as int);
        let j = q + k - 1;
        assert(r - a2 == m2o * (y - m1g * j)) by(nonlinear_arith)
            requires r == m1 * x + a1, m1 * x0 + (-m2o) * y == a2 - a1, x0 - x == m2 * j, m1 == g * m1g, m2 * g == m2o;
        lemma_mod_zero_mul(y - m1g * j, m2o);
        lemma_fundamental_div_mod(r - a2, m2o);
        let w = (r - a2) / m2o;
        assert(r == w * m2o + a2) by(nonlinear_arith) requires r - a2 == m2o * w + 0;
        lemma_fundamental_div_mod_converse(r, m2o, w, a2 as int);
    }
    Some(m1 * &x + &a1)
}
pub open spec fn choose_y(m1: int, m2: int, x: int, c: int) -> int { choose|y: int| #[trigger] lin(m1, x, -m2, y) == c }
} // verus!
fn main() {}
