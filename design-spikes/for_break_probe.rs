use vstd::prelude::*;
verus! {
fn f(v: &Vec<u32>, t: u32) -> (r: usize)
    ensures r <= v.len(), forall|k: int| 0 <= k < r ==> v[k] <= t, r < v.len() ==> v[r as int] > t,
{
    let mut r = 0usize;
    let ghost mut jx: int = -1;
    for j in 0..v.len()
        invariant_except_break jx == -1, r == j, forall|k: int| 0 <= k < j ==> v[k] <= t,
        ensures (jx == -1 ==> r == v.len()) && (jx != -1 ==> r == jx && r < v.len() && v[r as int] > t), forall|k: int| 0 <= k < r ==> v[k] <= t,
    {
        if v[j] > t {
            proof { jx = j as int; }
            break;
        }
        r = r + 1;
    }
    r
}
} // verus!
fn main() {}
