use vstd::prelude::*;
verus! {
pub struct DSU {
    pub p: Vec<usize>,
    pub sz: Vec<usize>,
}

pub open spec fn inv(p: Seq<usize>, sz: Seq<usize>) -> bool {
    &&& p.len() == sz.len()
    &&& forall|v: int| 0 <= v < p.len() ==> #[trigger] p[v] < p.len()
    &&& forall|v: int| 0 <= v < p.len() ==> 1 <= #[trigger] sz[v] <= p.len()
    &&& forall|v: int| 0 <= v < p.len() && p[v] != v ==> #[trigger] sz[p[v] as int] >= 2 * sz[v]
}

// representative, by following parents; measure: n - sz[v]
pub open spec fn root(p: Seq<usize>, sz: Seq<usize>, v: int) -> int
    recommends inv(p, sz), 0 <= v < p.len()
    decreases p.len() - sz[v] when inv(p, sz) && 0 <= v < p.len()
{
    if p[v] == v { v } else { root(p, sz, p[v] as int) }
}

proof fn lemma_root_props(p: Seq<usize>, sz: Seq<usize>, v: int)
    requires inv(p, sz), 0 <= v < p.len()
    ensures 0 <= root(p, sz, v) < p.len(), p[root(p, sz, v)] == root(p, sz, v), sz[root(p, sz, v)] >= sz[v],
        root(p, sz, root(p, sz, v)) == root(p, sz, v),
    decreases p.len() - sz[v]
{
    if p[v] != v { lemma_root_props(p, sz, p[v] as int); }
}

// path compression: re-pointing v to its root keeps every root
proof fn lemma_compress_inv(p: Seq<usize>, sz: Seq<usize>, v: int)
    requires inv(p, sz), 0 <= v < p.len(),
    ensures inv(p.update(v, root(p, sz, v) as usize), sz)
{
    lemma_root_props(p, sz, v);
    if p[v] != v { lemma_doubling_to_root(p, sz, v); }
    let p2 = p.update(v, root(p, sz, v) as usize);
    assert forall|w: int| 0 <= w < p2.len() && p2[w] != w implies #[trigger] sz[p2[w] as int] >= 2 * sz[w] by {
        if w != v { assert(p2[w] == p[w]); }
    }
}

proof fn lemma_compress(p: Seq<usize>, sz: Seq<usize>, v: int, w: int)
    requires inv(p, sz), 0 <= v < p.len(), 0 <= w < p.len(),
    ensures root(p.update(v, root(p, sz, v) as usize), sz, w) == root(p, sz, w)
    decreases p.len() - sz[w]
{
    let r = root(p, sz, v);
    let p2 = p.update(v, r as usize);
    lemma_root_props(p, sz, v);
    lemma_compress_inv(p, sz, v);
    if p[w] == w {
        assert(p2[w] == w);
    } else if w == v {
        assert(r != v);
        assert(p2[v] == r);
        assert(p2[r] == r);
        assert(root(p2, sz, r) == r);
        assert(root(p2, sz, v) == root(p2, sz, r));
    } else {
        lemma_compress(p, sz, v, p[w] as int);
        assert(p2[w] == p[w]);
    }
}

proof fn lemma_doubling_to_root(p: Seq<usize>, sz: Seq<usize>, v: int)
    requires inv(p, sz), 0 <= v < p.len(), p[v] != v
    ensures sz[root(p, sz, v)] >= 2 * sz[v], root(p, sz, v) != v, 0 <= root(p, sz, v) < p.len()
{
    lemma_root_props(p, sz, p[v] as int);
    lemma_root_props(p, sz, v);
}

impl DSU {
    pub fn par(&mut self, v: usize) -> (r: usize)
        requires inv(old(self).p@, old(self).sz@), v < old(self).p.len(),
        ensures inv(final(self).p@, final(self).sz@), final(self).sz@ == old(self).sz@, final(self).p.len() == old(self).p.len(),
            r == root(old(self).p@, old(self).sz@, v as int),
            forall|w: int| 0 <= w < old(self).p.len() ==> root(final(self).p@, final(self).sz@, w) == root(old(self).p@, old(self).sz@, w),
        decreases old(self).p.len() - old(self).sz[v as int]
    {
        if self.p[v] != v {
            let ghost p0 = self.p@; let ghost s0 = self.sz@;
            let x = self.par(self.p[v]);
            let ghost p1 = self.p@;
            self.p[v] = x;
            proof {
                lemma_root_props(p0, s0, v as int);
                assert(root(p1, s0, v as int) == root(p0, s0, v as int));
                assert(x == root(p1, s0, v as int)) by {
                    assert(root(p0, s0, v as int) == root(p0, s0, p0[v as int] as int));
                }
                assert(self.p@ == p1.update(v as int, root(p1, s0, v as int) as usize));
                assert forall|w: int| 0 <= w < p0.len() implies root(self.p@, self.sz@, w) == root(p0, s0, w) by {
                    lemma_compress(p1, s0, v as int, w);
                }
                lemma_compress_inv(p1, s0, v as int);
            }
        }
        self.p[v]
    }
}
} // verus!
fn main() {}
