use vstd::prelude::*;
verus! {
pub struct DSU {
    pub p: Vec<usize>,
    pub sz: Vec<usize>,
}

pub open spec fn inv(p: Seq<usize>, sz: Seq<usize>) -> bool {
    &&& p.len() == sz.len() && p.len() <= usize::MAX
    &&& forall|v: int| 0 <= v < p.len() ==> #[trigger] p[v] < p.len()
    &&& forall|v: int| 0 <= v < p.len() ==> 1 <= #[trigger] sz[v] <= p.len()
    &&& forall|v: int| 0 <= v < p.len() && p[v] != v ==> #[trigger] sz[p[v] as int] >= 2 * sz[v]
}

// representative, by following parents; measure: n - sz[v]
pub open spec fn root(p: Seq<usize>, sz: Seq<usize>, v: int) -> int
    recommends inv(p, sz), 0 <= v < p.len()
    decreases p.len() - sz[v] when inv(p, sz) && 0 <= v < p.len()
{
    if p[v] == v { v } else { root(p, sz, p[v] as int) }
}

proof fn lemma_root_props(p: Seq<usize>, sz: Seq<usize>, v: int)
    requires inv(p, sz), 0 <= v < p.len()
    ensures 0 <= root(p, sz, v) < p.len(), p[root(p, sz, v)] == root(p, sz, v), sz[root(p, sz, v)] >= sz[v],
        root(p, sz, root(p, sz, v)) == root(p, sz, v),
    decreases p.len() - sz[v]
{
    if p[v] != v { lemma_root_props(p, sz, p[v] as int); }
}

// path compression: re-pointing v to its root keeps every root
proof fn lemma_compress_inv(p: Seq<usize>, sz: Seq<usize>, v: int)
    requires inv(p, sz), 0 <= v < p.len(),
    ensures inv(p.update(v, root(p, sz, v) as usize), sz)
{
    lemma_root_props(p, sz, v);
    if p[v] != v { lemma_doubling_to_root(p, sz, v); }
    let p2 = p.update(v, root(p, sz, v) as usize);
    assert forall|w: int| 0 <= w < p2.len() && p2[w] != w implies #[trigger] sz[p2[w] as int] >= 2 * sz[w] by {
        if w != v { assert(p2[w] == p[w]); }
    }
}

proof fn lemma_compress(p: Seq<usize>, sz: Seq<usize>, v: int, w: int)
    requires inv(p, sz), 0 <= v < p.len(), 0 <= w < p.len(),
    ensures root(p.update(v, root(p, sz, v) as usize), sz, w) == root(p, sz, w)
    decreases p.len() - sz[w]
{
    let r = root(p, sz, v);
    let p2 = p.update(v, r as usize);
    lemma_root_props(p, sz, v);
    lemma_compress_inv(p, sz, v);
    if p[w] == w {
        assert(p2[w] == w);
    } else if w == v {
        assert(r != v);
        assert(p2[v] == r);
        assert(p2[r] == r);
        assert(root(p2, sz, r) == r);
        assert(root(p2, sz, v) == root(p2, sz, r));
    } else {
        lemma_compress(p, sz, v, p[w] as int);
        assert(p2[w] == p[w]);
    }
}

proof fn lemma_doubling_to_root(p: Seq<usize>, sz: Seq<usize>, v: int)
    requires inv(p, sz), 0 <= v < p.len(), p[v] != v
    ensures sz[root(p, sz, v)] >= 2 * sz[v], root(p, sz, v) != v, 0 <= root(p, sz, v) < p.len()
{
    lemma_root_props(p, sz, p[v] as int);
    lemma_root_props(p, sz, v);
}


// number of elements below k whose representative is r
pub open spec fn cnt(p: Seq<usize>, sz: Seq<usize>, r: int, k: int) -> int
    decreases k
{
    if k <= 0 { 0 } else { cnt(p, sz, r, k - 1) + if root(p, sz, k - 1) == r { 1int } else { 0int } }
}
// sizes are cardinalities of components
pub open spec fn sized(p: Seq<usize>, sz: Seq<usize>) -> bool {
    forall|r: int| 0 <= r < p.len() && p[r] == r ==> #[trigger] sz[r] == cnt(p, sz, r, p.len() as int)
}
pub open spec fn full(p: Seq<usize>, sz: Seq<usize>) -> bool { inv(p, sz) && sized(p, sz) }

proof fn lemma_cnt_bounds(p: Seq<usize>, sz: Seq<usize>, a: int, b: int, k: int)
    requires inv(p, sz), 0 <= k <= p.len(), a != b
    ensures 0 <= cnt(p, sz, a, k), cnt(p, sz, a, k) + cnt(p, sz, b, k) <= k
    decreases k
{
    if k > 0 { lemma_cnt_bounds(p, sz, a, b, k - 1); }
}
// counts only depend on the root function
proof fn lemma_cnt_same_roots(p1: Seq<usize>, s1: Seq<usize>, p2: Seq<usize>, s2: Seq<usize>, r: int, k: int)
    requires p1.len() == p2.len(), 0 <= k <= p1.len(),
        forall|w: int| 0 <= w < p1.len() ==> root(p1, s1, w) == root(p2, s2, w),
    ensures cnt(p1, s1, r, k) == cnt(p2, s2, r, k)
    decreases k
{
    if k > 0 { lemma_cnt_same_roots(p1, s1, p2, s2, r, k - 1); }
}

// linking root u below root v (sz[u] <= sz[v])
pub open spec fn link_p(p: Seq<usize>, u: int, v: int) -> Seq<usize> { p.update(u, v as usize) }
pub open spec fn link_s(sz: Seq<usize>, u: int, v: int) -> Seq<usize> { sz.update(v, (sz[v] + sz[u]) as usize) }

proof fn lemma_link_inv(p: Seq<usize>, sz: Seq<usize>, u: int, v: int)
    requires full(p, sz), 0 <= u < p.len(), 0 <= v < p.len(), u != v, p[u] == u, p[v] == v, sz[u] <= sz[v],
    ensures inv(link_p(p, u, v), link_s(sz, u, v)), sz[u] + sz[v] <= p.len()
{
    lemma_cnt_bounds(p, sz, u, v, p.len() as int);
    assert(sz[u] == cnt(p, sz, u, p.len() as int));
    assert(sz[v] == cnt(p, sz, v, p.len() as int));
    assert(sz[u] + sz[v] <= p.len());
    let p2 = link_p(p, u, v); let s2 = link_s(sz, u, v);
    assert(s2[v] == sz[v] + sz[u]);
    assert forall|w: int| 0 <= w < p2.len() && p2[w] != w implies #[trigger] s2[p2[w] as int] >= 2 * s2[w] by {
        if w == u { assert(s2[u] == sz[u]); } else {
            assert(p2[w] == p[w]); assert(w != v); assert(s2[w] == sz[w]);
            assert(sz[p[w] as int] >= 2 * sz[w]);
            if p[w] == v { } else { assert(s2[p[w] as int] == sz[p[w] as int]); }
        }
    }
    assert forall|w: int| 0 <= w < p2.len() implies 1 <= #[trigger] s2[w] <= p2.len() by {
        if w == v { } else { assert(s2[w] == sz[w]); }
    }
    assert forall|w: int| 0 <= w < p2.len() implies #[trigger] p2[w] < p2.len() by { if w != u { assert(p2[w] == p[w]); } }
}
proof fn lemma_link_root(p: Seq<usize>, sz: Seq<usize>, u: int, v: int, w: int)
    requires full(p, sz), 0 <= u < p.len(), 0 <= v < p.len(), u != v, p[u] == u, p[v] == v, sz[u] <= sz[v], 0 <= w < p.len(),
    ensures root(link_p(p, u, v), link_s(sz, u, v), w) == (if root(p, sz, w) == u { v } else { root(p, sz, w) })
    decreases p.len() - sz[w]
{
    lemma_link_inv(p, sz, u, v);
    let p2 = link_p(p, u, v); let s2 = link_s(sz, u, v);
    if p[w] == w {
        if w == u {
            assert(p2[u] == v); assert(p2[v] == v);
            assert(root(p2, s2, v) == v);
            assert(root(p2, s2, u) == root(p2, s2, v));
        } else { assert(p2[w] == w); }
    } else {
        assert(w != u);
        assert(p2[w] == p[w]);
        lemma_link_root(p, sz, u, v, p[w] as int);
    }
}
proof fn lemma_link_cnt(p: Seq<usize>, sz: Seq<usize>, u: int, v: int, r: int, k: int)
    requires full(p, sz), 0 <= u < p.len(), 0 <= v < p.len(), u != v, p[u] == u, p[v] == v, sz[u] <= sz[v], 0 <= k <= p.len(),
    ensures cnt(link_p(p, u, v), link_s(sz, u, v), r, k)
        == (if r == v { cnt(p, sz, u, k) + cnt(p, sz, v, k) } else if r == u { 0 } else { cnt(p, sz, r, k) })
    decreases k
{
    if k > 0 { lemma_link_cnt(p, sz, u, v, r, k - 1); lemma_link_root(p, sz, u, v, k - 1); }
}
proof fn lemma_link_full(p: Seq<usize>, sz: Seq<usize>, u: int, v: int)
    requires full(p, sz), 0 <= u < p.len(), 0 <= v < p.len(), u != v, p[u] == u, p[v] == v, sz[u] <= sz[v],
    ensures full(link_p(p, u, v), link_s(sz, u, v))
{
    lemma_link_inv(p, sz, u, v);
    let p2 = link_p(p, u, v); let s2 = link_s(sz, u, v);
    assert(sz[u] == cnt(p, sz, u, p.len() as int));
    assert(sz[v] == cnt(p, sz, v, p.len() as int));
    assert forall|r: int| 0 <= r < p2.len() && p2[r] == r implies #[trigger] s2[r] == cnt(p2, s2, r, p2.len() as int) by {
        lemma_link_cnt(p, sz, u, v, r, p.len() as int);
        if r == v { assert(s2[v] == sz[v] + sz[u]); } else {
            assert(r != u);
            assert(p[r] == r);
            assert(s2[r] == sz[r]);
            assert(sz[r] == cnt(p, sz, r, p.len() as int));
        }
    }
}
impl DSU {
    pub fn par(&mut self, v: usize) -> (r: usize)
        requires inv(old(self).p@, old(self).sz@), v < old(self).p.len(),
        ensures inv(final(self).p@, final(self).sz@), final(self).sz@ == old(self).sz@, final(self).p.len() == old(self).p.len(),
            r == root(old(self).p@, old(self).sz@, v as int),
            forall|w: int| 0 <= w < old(self).p.len() ==> root(final(self).p@, final(self).sz@, w) == root(old(self).p@, old(self).sz@, w),
        decreases old(self).p.len() - old(self).sz[v as int]
    {
        if self.p[v] != v {
            let ghost p0 = self.p@; let ghost s0 = self.sz@;
            let x = self.par(self.p[v]);
            let ghost p1 = self.p@;
            self.p[v] = x;
            proof {
                lemma_root_props(p0, s0, v as int);
                assert(root(p1, s0, v as int) == root(p0, s0, v as int));
                assert(x == root(p1, s0, v as int)) by {
                    assert(root(p0, s0, v as int) == root(p0, s0, p0[v as int] as int));
                }
                assert(self.p@ == p1.update(v as int, root(p1, s0, v as int) as usize));
                assert forall|w: int| 0 <= w < p0.len() implies root(self.p@, self.sz@, w) == root(p0, s0, w) by {
                    lemma_compress(p1, s0, v as int, w);
                }
                lemma_compress_inv(p1, s0, v as int);
            }
        }
        self.p[v]
    }

    pub fn un(&mut self, mut u: usize, mut v: usize) -> (res: bool)
        requires full(old(self).p@, old(self).sz@), u < old(self).p.len(), v < old(self).p.len(),
        ensures full(final(self).p@, final(self).sz@), final(self).p.len() == old(self).p.len(),
            res == (root(old(self).p@, old(self).sz@, u as int) != root(old(self).p@, old(self).sz@, v as int)),
            // the partition after the call: classes of u and v merged, everything else untouched
            forall|a: int, b: int| 0 <= a < old(self).p.len() && 0 <= b < old(self).p.len() ==>
                ((root(final(self).p@, final(self).sz@, a) == root(final(self).p@, final(self).sz@, b)) <==> {
                    let ra = root(old(self).p@, old(self).sz@, a); let rb = root(old(self).p@, old(self).sz@, b);
                    let ru = root(old(self).p@, old(self).sz@, u as int); let rv = root(old(self).p@, old(self).sz@, v as int);
                    ra == rb || (ra == ru && rb == rv) || (ra == rv && rb == ru)
                }),
    {
        let ghost p0 = self.p@; let ghost s0 = self.sz@;
        let ghost u0 = u as int; let ghost v0 = v as int;
        u = self.par(u);
        proof {
            assert forall|r: int| 0 <= r < self.p@.len() && self.p@[r] == r implies #[trigger] self.sz@[r] == cnt(self.p@, self.sz@, r, self.p@.len() as int) by {
                lemma_root_props(self.p@, self.sz@, r); lemma_root_props(p0, s0, r);
                assert(root(p0, s0, r) == r);
                assert(p0[r] == r) by { lemma_root_props(p0, s0, r); }
                lemma_cnt_same_roots(self.p@, self.sz@, p0, s0, r, p0.len() as int);
            }
        }
        let ghost p1 = self.p@;
        v = self.par(v);
        proof {
            assert forall|r: int| 0 <= r < self.p@.len() && self.p@[r] == r implies #[trigger] self.sz@[r] == cnt(self.p@, self.sz@, r, self.p@.len() as int) by {
                lemma_root_props(self.p@, self.sz@, r); lemma_root_props(p1, s0, r);
                assert(root(p1, s0, r) == r);
                lemma_cnt_same_roots(self.p@, self.sz@, p1, s0, r, p0.len() as int);
            }
            lemma_root_props(p0, s0, u0); lemma_root_props(p0, s0, v0);
            lemma_root_props(self.p@, self.sz@, u as int); lemma_root_props(self.p@, self.sz@, v as int);
        }
        if u == v {
            return false;
        }
        if self.sz[u] > self.sz[v] {
            std::mem::swap(&mut u, &mut v);
        }
        let ghost p2 = self.p@;
        proof { lemma_link_full(p2, s0, u as int, v as int); lemma_link_inv(p2, s0, u as int, v as int); }
        self.sz[v] += self.sz[u];
        self.p[u] = v;
        proof {
            assert(self.p@ == link_p(p2, u as int, v as int));
            assert(self.sz@ == link_s(s0, u as int, v as int));
            assert forall|a: int| 0 <= a < p0.len() implies
                root(self.p@, self.sz@, a) == (if root(p0, s0, a) == u { v as int } else { root(p0, s0, a) }) by {
                lemma_link_root(p2, s0, u as int, v as int, a);
            }
        }
        true
    }
}
} // verus!
fn main() {}
