use vstd::prelude::*;
verus! {
fn f(n: usize) -> (r: usize) ensures r == n {
    let mut c = 0usize;
    for i in it: (0..n).rev()
        invariant c == it.index@, it.seq().len() == n, 
            forall|k: int| 0 <= k < n ==> it.seq()[k] == n - 1 - k,
    {
        assert(i == n - 1 - c);
        c += 1;
    }
    c
}
} // verus!
fn main() {}
