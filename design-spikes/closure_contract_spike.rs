use vstd::prelude::*;
verus! {
pub struct N { pub item: u32, pub k: u32 }
fn g(o: &Option<Box<N>>) -> (r: u32)
    ensures r == (match o { Some(b) => b.item, None => 0u32 })
{
    o.as_ref().map(|x: &Box<N>| -> (r: u32) ensures r == x.item { x.item }).unwrap_or(0)
}
fn h(o: &Option<Box<N>>) -> (r: Option<&u32>)
    ensures r == (match o { Some(b) => Some(&b.item), None => None::<&u32> })
{
    o.as_ref().map(|x: &Box<N>| -> (r: &u32) ensures r == &x.item { &x.item })
}
fn m(o: &mut Option<Box<N>>) 
    ensures match *old(o) { Some(b) => final(o).is_some() && final(o).unwrap().item == 7 && final(o).unwrap().k == b.k, None => final(o).is_none() }
{
    let r = o.as_mut().map(|x: &mut Box<N>| -> (r: &mut u32) ensures *r == old(x).item, *final(r) == final(x).item, final(x).k == old(x).k { &mut x.item });
    match r { Some(p) => { *p = 7; }, None => {} }
}
} // verus!
fn main() {}
