use vstd::prelude::*;
use std::io::Write;
verus! {
#[verifier::external_type_specification]
#[verifier::external_body]
pub struct ExError(std::io::Error);

#[verifier::external_trait_specification]
pub trait ExWrite {
    type ExternalTraitSpecificationFor: std::io::Write;
}
pub uninterp spec fn sink<W: ?Sized>(w: &Box<W>) -> Seq<u8>;
pub assume_specification<W> [<std::boxed::Box<W> as std::io::Write>::write_all] (w: &mut std::boxed::Box<W>, b: &[u8]) -> (res: std::result::Result<(), std::io::Error>)
    where W: std::marker::MetaSized + std::io::Write + ?Sized,
    ensures res.is_ok(), sink(final(w)) == sink(old(w)) + b@;


pub open spec fn dec(n: nat) -> Seq<u8> decreases n {
    if n < 10 { seq![(0x30 + n) as u8] } else { dec(n / 10).push((0x30 + n % 10) as u8) }
}

pub struct Writer<'a> {
    pub buf: [u8; Writer::BUF_SIZE],
    pub end: usize,
    pub stdout: Box<dyn Write + 'a>,
}

impl<'a> Writer<'a> {
    const BUF_SIZE: usize = 1 << 16;

    pub closed spec fn wf(&self) -> bool { self.end <= self.buf@.len() }
    pub closed spec fn out(&self) -> Seq<u8> { sink(&self.stdout) + self.buf@.subrange(0, self.end as int) }

    pub fn write<T: Writable>(&mut self, t: &T)
        requires old(self).wf(), t.wr_ok(),
        ensures final(self).wf(), final(self).out() == old(self).out() + t.render(),
    {
        t.write(self);
        #[cfg(debug_assertions)]
        self.flush();
    }

    pub fn write_char(&mut self, c: char)
        requires old(self).wf(), (c as u32) < 128,
        ensures final(self).wf(), final(self).out() == old(self).out() + seq![c as u8],
    {
        self.write_bytes(&[c as u8]);
        #[cfg(debug_assertions)]
        self.flush();
    }

    pub fn flush(&mut self)
        requires old(self).wf(),
        ensures final(self).wf(), final(self).out() == old(self).out(), final(self).end == 0,
    {
        if self.end == 0 {
            return;
        }

        self.stdout.write_all(&self.buf[..self.end]).unwrap();
        self.end = 0;
    }

    fn reserve(&mut self, size: usize)
        requires old(self).wf(), size <= old(self).buf@.len(),
        ensures final(self).wf(), final(self).out() == old(self).out(), final(self).end + size <= final(self).buf@.len(),
    {
        if self.end + size > self.buf.len() {
            self.flush();
        }
    }

    fn write_bytes(&mut self, buf: &[u8])
        requires old(self).wf(), buf@.len() <= old(self).buf@.len(),
        ensures final(self).wf(), final(self).out() == old(self).out() + buf@,
    {
        self.reserve(buf.len());
        self.buf[self.end..self.end + buf.len()].copy_from_slice(buf);
        self.end += buf.len();
    }
}
pub trait Writable {
    spec fn render(&self) -> Seq<u8>;
    spec fn wr_ok(&self) -> bool;
    fn write(&self, writer: &mut Writer)
        requires old(writer).wf(), self.wr_ok(),
        ensures final(writer).wf(), final(writer).out() == old(writer).out() + self.render();
}
impl Writable for u64 {
            open spec fn render(&self) -> Seq<u8> { dec(*self as nat) }
            open spec fn wr_ok(&self) -> bool { true }
            fn write(&self, writer: &mut Writer) {
                if self == &0 {
                    writer.write_char('0');
                    return;
                }

                let mut buf = [0; 20];
                let mut index = buf.len();
                let mut value = *self;
                proof { assert(pow10(20) == 100000000000000000000) by(compute); lemma_dec_bound(*self as nat, 20); }
                while value != 0
                    invariant 0 <= index <= 20, buf@.len() == 20,
                        value == 0 ==> index < 20,
                        // digits already produced are the low-order digits of *self
                        dec(*self as nat) == (if value == 0 { Seq::<u8>::empty() } else { dec(value as nat) }) + buf@.subrange(index as int, 20),
                        (value as nat) > 0 ==> dec(value as nat).len() <= index,
                    decreases value,
                {
                    proof { lemma_dec_len(value as nat); lemma_dec_step(value as nat, buf@, index as int); }
                    index -= 1;
                    buf[index] = (value % 10) as u8 + b'0';
                    value /= 10;
                }
                writer.write_bytes(&buf[index..]);
            }
}
proof fn lemma_dec_len(n: nat) ensures dec(n).len() >= 1, n < 10 ==> dec(n).len() == 1, n >= 10 ==> dec(n).len() == dec(n / 10).len() + 1 { }
pub open spec fn pow10(k: nat) -> nat decreases k { if k == 0 { 1 } else { 10 * pow10((k - 1) as nat) } }
proof fn lemma_dec_bound(n: nat, k: nat)
    requires k >= 1, n < pow10(k)
    ensures dec(n).len() <= k
    decreases k
{
    reveal_with_fuel(pow10, 2);
    if n >= 10 {
        assert(k >= 2) by { if k == 1 { assert(pow10(1) == 10); } }
        assert(n / 10 < pow10((k - 1) as nat)) by(nonlinear_arith) requires n < 10 * pow10((k - 1) as nat);
        lemma_dec_bound(n / 10, (k - 1) as nat);
    }
}
proof fn lemma_dec_step(v: nat, b: Seq<u8>, index: int) { }

pub assume_specification [i64::unsigned_abs] (x: i64) -> (r: u64) ensures r == (if x < 0 { -(x as int) } else { x as int });
impl Writable for i64 {
            open spec fn render(&self) -> Seq<u8> { if *self < 0 { seq![0x2Du8] + dec((-(*self as int)) as nat) } else { dec(*self as nat) } }
            open spec fn wr_ok(&self) -> bool { true }
            fn write(&self, writer: &mut Writer) {
                if self < &0 {
                    writer.write_char('-');
                }
                writer.write(&self.unsigned_abs());
            }
}
} // verus!
fn main() {}
