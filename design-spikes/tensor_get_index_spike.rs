use vstd::prelude::*;
verus! {
global size_of usize == 8;
#[verifier::external_body]
fn reject() ensures false { panic!() }

pub struct Tensor<T, const D: usize> {
    pub dims: [usize; D],
    pub data: Vec<T>,
}
// product of dims[k..D)
pub open spec fn sprod(d: Seq<usize>, k: int) -> int decreases d.len() - k {
    if k >= d.len() { 1 } else { d[k] * sprod(d, k + 1) }
}
// row-major offset of idx[k..D) inside the block of dims[k..D)
pub open spec fn flat(idx: Seq<usize>, d: Seq<usize>, k: int) -> int decreases d.len() - k {
    if k >= d.len() { 0 } else { idx[k] * sprod(d, k + 1) + flat(idx, d, k + 1) }
}
pub open spec fn valid(idx: Seq<usize>, d: Seq<usize>, k: int) -> bool {
    forall|j: int| k <= j < d.len() ==> #[trigger] idx[j] < d[j]
}
proof fn lemma_sprod_pos(d: Seq<usize>, k: int)
    requires forall|j: int| 0 <= j < d.len() ==> #[trigger] d[j] > 0, 0 <= k <= d.len(),
    ensures sprod(d, k) >= 1, k > 0 ==> sprod(d, k) <= sprod(d, k - 1)
    decreases d.len() - k
{
    if k < d.len() {
        lemma_sprod_pos(d, k + 1);
        assert(d[k] * sprod(d, k + 1) >= 1) by(nonlinear_arith) requires d[k] >= 1, sprod(d, k + 1) >= 1;
    }
    if k > 0 { if k <= d.len() { 
        if k < d.len() { lemma_sprod_pos(d, k + 1); }
        assert(d[k - 1] * sprod(d, k) >= sprod(d, k)) by(nonlinear_arith) requires d[k - 1] >= 1, sprod(d, k) >= 1; } }
}
proof fn lemma_sprod_mono(d: Seq<usize>, k: int)
    requires forall|j: int| 0 <= j < d.len() ==> #[trigger] d[j] > 0, 0 <= k <= d.len(),
    ensures sprod(d, k) <= sprod(d, 0)
    decreases k
{
    if k > 0 { lemma_sprod_pos(d, k); lemma_sprod_mono(d, k - 1); }
}
proof fn lemma_flat_bound(idx: Seq<usize>, d: Seq<usize>, k: int)
    requires idx.len() == d.len(), 0 <= k <= d.len(), valid(idx, d, k), forall|j: int| 0 <= j < d.len() ==> #[trigger] d[j] > 0,
    ensures 0 <= flat(idx, d, k) < sprod(d, k)
    decreases d.len() - k
{
    if k < d.len() {
        lemma_flat_bound(idx, d, k + 1);
        lemma_sprod_pos(d, k + 1);
        assert(idx[k] * sprod(d, k + 1) + flat(idx, d, k + 1) < d[k] * sprod(d, k + 1)) by(nonlinear_arith)
            requires idx[k] < d[k], 0 <= flat(idx, d, k + 1) < sprod(d, k + 1);
        assert(idx[k] * sprod(d, k + 1) >= 0) by(nonlinear_arith) requires idx[k] >= 0, sprod(d, k + 1) >= 1;
    }
}
// distinct valid multi-indices have distinct offsets
proof fn lemma_flat_inj(a: Seq<usize>, b: Seq<usize>, d: Seq<usize>, k: int)
    requires a.len() == d.len(), b.len() == d.len(), 0 <= k <= d.len(), valid(a, d, k), valid(b, d, k),
        forall|j: int| 0 <= j < d.len() ==> #[trigger] d[j] > 0, flat(a, d, k) == flat(b, d, k),
    ensures forall|j: int| k <= j < d.len() ==> a[j] == b[j]
    decreases d.len() - k
{
    if k < d.len() {
        lemma_flat_bound(a, d, k + 1); lemma_flat_bound(b, d, k + 1);
        let s = sprod(d, k + 1);
        lemma_sprod_pos(d, k + 1);
        if a[k] != b[k] {
            let (hi, lo, fh, fl) = if a[k] > b[k] { (a[k] as int, b[k] as int, flat(a, d, k + 1), flat(b, d, k + 1)) } else { (b[k] as int, a[k] as int, flat(b, d, k + 1), flat(a, d, k + 1)) };
            assert(hi * s + fh > lo * s + fl) by(nonlinear_arith) requires hi >= lo + 1, 0 <= fh, 0 <= fl < s, s >= 1;
        }
        lemma_flat_inj(a, b, d, k + 1);
    }
}

impl<T, const D: usize> Tensor<T, D> {
    pub open spec fn wf(&self) -> bool {
        (forall|j: int| 0 <= j < D ==> #[trigger] self.dims@[j] > 0) && sprod(self.dims@, 0) == self.data@.len()
    }
    pub fn get_index(&self, idx: [usize; D]) -> (result: usize)
        requires self.wf(),
        ensures valid(idx@, self.dims@, 0), result == flat(idx@, self.dims@, 0), result < self.data@.len(),
    {
        let mut result = 0;
        let mut sz = 1;
        for i in it: (0..D).rev()
            invariant self.wf(),
                it.seq().len() == D, forall|k: int| 0 <= k < D ==> it.seq()[k] == D - 1 - k,
                valid(idx@, self.dims@, D - it.index@), (sz as int) == sprod(self.dims@, D - it.index@), (result as int) == flat(idx@, self.dims@, D - it.index@),
        {
            if !(idx[i] < self.dims[i]) { reject(); }
            proof {
                let k = D - it.index@ - 1;
                assert(i == k);
                lemma_sprod_mono(self.dims@, k); lemma_sprod_mono(self.dims@, k + 1); lemma_sprod_pos(self.dims@, k + 1);
                lemma_flat_bound(idx@, self.dims@, k);
                assert(self.data@.len() == self.data.len() as int); assert(self.data.len() <= usize::MAX);
                assert((sz as int) * idx@[k] <= flat(idx@, self.dims@, k)) by { lemma_flat_bound(idx@, self.dims@, k + 1); assert((sz as int) * idx@[k] == idx@[k] * sprod(self.dims@, k + 1)) by(nonlinear_arith) requires sz as int == sprod(self.dims@, k + 1); }
                assert((sz as int) * self.dims@[k] == sprod(self.dims@, k)) by(nonlinear_arith) requires sz as int == sprod(self.dims@, k + 1), sprod(self.dims@, k) == self.dims@[k] * sprod(self.dims@, k + 1);
            }
            result += sz * idx[i];
            sz *= self.dims[i];
        }
        proof { lemma_flat_bound(idx@, self.dims@, 0); }
        result
    }
}
} // verus!
fn main() {}
