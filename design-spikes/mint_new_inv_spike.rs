use vstd::prelude::*;
use vstd::arithmetic::div_mod::*;
use vstd::arithmetic::mul::*;
verus! {
#[derive(Copy, Clone, PartialEq, Eq)]
pub struct Modular<const M: u32> {
    pub v: u32,
}


pub open spec fn cdiv(d: int, a: int, b: int) -> bool { d >= 1 && a % d == 0 && b % d == 0 }
pub open spec fn iabs(x: int) -> int { if x < 0 { -x } else { x } }

proof fn lemma_div_comb(a: int, r: int, k: int, d: int)
    requires d >= 1, a % d == 0, r % d == 0
    ensures (r + k * a) % d == 0
{
    lemma_fundamental_div_mod(a, d); lemma_fundamental_div_mod(r, d);
    let p = a / d; let q = r / d;
    assert(r + k * a == (q + k * p) * d + 0) by(nonlinear_arith) requires a == d * p, r == d * q;
    lemma_fundamental_div_mod_converse(r + k * a, d, q + k * p, 0);
}
proof fn lemma_cong_step(x: int, y: int, k: int, v: int, a: int, b: int, m: int)
    requires m >= 1, (y * v - a) % m == 0, (x * v - b) % m == 0
    ensures ((x - k * y) * v - (b - k * a)) % m == 0
{
    assert((x - k * y) * v - (b - k * a) == (x * v - b) + (-k) * (y * v - a)) by(nonlinear_arith);
    lemma_div_comb(y * v - a, x * v - b, -k, m);
}
proof fn lemma_step_bound(a: int, b: int, x: int, y: int, k: int, m: int)
    requires a >= 1, b >= 0, k >= 0, k * a <= b, a * iabs(x) + b * iabs(y) == m, (x <= 0 && 0 <= y) || (y <= 0 && 0 <= x),
    ensures (b - k * a) * iabs(y) + a * iabs(x - k * y) == m, iabs(x - k * y) == iabs(x) + k * iabs(y),
        iabs(x - k * y) <= m, iabs(k * y) <= m, iabs(k * a) <= b,
        (y <= 0 && 0 <= x - k * y) || (x - k * y <= 0 && 0 <= y),
{
    assert(iabs(x - k * y) == iabs(x) + k * iabs(y)) by(nonlinear_arith) requires k >= 0, (x <= 0 && 0 <= y) || (y <= 0 && 0 <= x);
    assert((b - k * a) * iabs(y) + a * (iabs(x) + k * iabs(y)) == a * iabs(x) + b * iabs(y)) by(nonlinear_arith);
    assert(a * iabs(x - k * y) <= m) by(nonlinear_arith) requires (b - k * a) * iabs(y) + a * iabs(x - k * y) == m, b - k * a >= 0, iabs(y) >= 0;
    assert(iabs(x - k * y) <= m) by(nonlinear_arith) requires a * iabs(x - k * y) <= m, a >= 1, iabs(x - k * y) >= 0;
    assert(iabs(k * y) == k * iabs(y)) by(nonlinear_arith) requires k >= 0;
    assert((y <= 0 && 0 <= x - k * y) || (x - k * y <= 0 && 0 <= y)) by(nonlinear_arith) requires k >= 0, (x <= 0 && 0 <= y) || (y <= 0 && 0 <= x);
    assert(k * a >= 0) by(nonlinear_arith) requires k >= 0, a >= 1;
}
impl<const M: u32> Modular<M> {
    pub open spec fn wf(self) -> bool { self.v < M }

    pub fn new(v: i64) -> (r: Self)
        requires 2 <= M < 0x8000_0000,
        ensures r.wf(), r.v as int == v as int % (M as int),
    {
        let ghost x = v as int; let ghost m = M as int;
        let mut v = (v % M as i64) as i32;
        proof {
            if x == 0 { lemma_small_mod(0, m as nat); }
            if x < 0 {
                let k = (-x) % m; let q = (-x) / m;
                lemma_fundamental_div_mod(-x, m);
                assert(-x == m * q + k);
                if k == 0 {
                    assert(x == (-q) * m + 0) by(nonlinear_arith) requires -x == m * q + k, k == 0;
                    lemma_fundamental_div_mod_converse(x, m, -q, 0);
                } else {
                    assert(x == (-q - 1) * m + (m - k)) by(nonlinear_arith) requires -x == m * q + k;
                    lemma_fundamental_div_mod_converse(x, m, -q - 1, m - k);
                }
            }
        }
        if v < 0 {
            v += M as i32;
        }
        Self { v: v as u32 }
    }

    pub fn inv(&self) -> (r: Self)
        requires self.wf(), 2 <= M < 0x8000_0000,
        ensures r.wf(),
            exists|g: int| #[trigger] cdiv(g, self.v as int, M as int) && (r.v * self.v) % (M as int) == g % (M as int),
    {
        let mut a = self.v as i32;
        let mut b = M as i32;
        let mut x = 0;
        let mut y = 1;
        let ghost v = self.v as int; let ghost m = M as int;
        proof { assert((a as int) * 0 == 0) by(nonlinear_arith); assert((b as int) * 1 == b as int) by(nonlinear_arith); lemma_small_mod(0, m as nat); assert((1 * v - v) % m == 0); assert((0 * v - m) % m == 0) by { lemma_mod_self_0(m); lemma_div_comb(m, 0, -1, m); } }
        while a != 0
            invariant 0 <= a, 1 <= b, m == M as int, v == self.v as int, 2 <= m < 0x8000_0000,
                ((y as int) * v - a) % m == 0, ((x as int) * v - b) % m == 0,
                a * iabs(x as int) + b * iabs(y as int) == m,
                ((x as int) <= 0 && 0 <= (y as int)) || ((y as int) <= 0 && 0 <= (x as int)),
                forall|d: int| #[trigger] cdiv(d, a as int, b as int) ==> cdiv(d, v, m),
            decreases a
        {
            let k = b / a;
            proof {
                lemma_fundamental_div_mod(b as int, a as int);
                assert(k * a <= b) by(nonlinear_arith) requires b == a * k + (b as int) % (a as int), (b as int) % (a as int) >= 0;
                lemma_step_bound(a as int, b as int, x as int, y as int, k as int, m);
                lemma_cong_step(x as int, y as int, k as int, v, a as int, b as int, m);
                assert forall|d: int| #[trigger] cdiv(d, b - k * a, a as int) implies cdiv(d, v, m) by {
                    lemma_div_comb(a as int, b - k * a, k as int, d);
                    assert(b - k * a + k * a == b);
                    assert(cdiv(d, a as int, b as int));
                }
                lemma_mod_bound(b as int, a as int);
                assert(b - k * a == (b as int) % (a as int)) by(nonlinear_arith) requires b == a * k + (b as int) % (a as int);
            }
            b -= k * a;
            x -= k * y;
            std::mem::swap(&mut a, &mut b);
            std::mem::swap(&mut x, &mut y);
        }
        let r = Self::new(x as i64);
        proof {
            // a == 0:  b divides v and m;  x*v == b (mod m)
            assert((b as int) % (b as int) == 0) by { lemma_mod_self_0(b as int); }
            assert(0int % (b as int) == 0) by { lemma_small_mod(0, b as nat); }
            let g = b as int;
            assert(cdiv(g, a as int, b as int));
            assert(cdiv(g, v, m));
            // r.v == x mod m  ==>  r.v * v == x * v == g  (mod m)
            lemma_mul_mod_noop_left(x as int, v, m);
            assert((x * v) % m == g % m) by {
                lemma_fundamental_div_mod(x * v - g, m);
                let q = (x * v - g) / m;
                assert(x * v == q * m + g) by(nonlinear_arith) requires x * v - g == m * q + 0;
                lemma_mod_multiples_vanish(q, g, m);
            }
        }
        r
    }
}
} // verus!
fn main() {}
