use vstd::prelude::*;
use std::ops::*;
use vstd::arithmetic::power::*;
use vstd::arithmetic::div_mod::*;
use vstd::arithmetic::mul::*;
verus! {
#[derive(Copy, Clone, PartialEq, Eq)]
pub struct Modular<const M: u32> {
    pub v: u32,
}


pub open spec fn cdiv(d: int, a: int, b: int) -> bool { d >= 1 && a % d == 0 && b % d == 0 }
pub open spec fn iabs(x: int) -> int { if x < 0 { -x } else { x } }

proof fn lemma_div_comb(a: int, r: int, k: int, d: int)
    requires d >= 1, a % d == 0, r % d == 0
    ensures (r + k * a) % d == 0
{
    lemma_fundamental_div_mod(a, d); lemma_fundamental_div_mod(r, d);
    let p = a / d; let q = r / d;
    assert(r + k * a == (q + k * p) * d + 0) by(nonlinear_arith) requires a == d * p, r == d * q;
    lemma_fundamental_div_mod_converse(r + k * a, d, q + k * p, 0);
}
proof fn lemma_cong_step(x: int, y: int, k: int, v: int, a: int, b: int, m: int)
    requires m >= 1, (y * v - a) % m == 0, (x * v - b) % m == 0
    ensures ((x - k * y) * v - (b - k * a)) % m == 0
{
    assert((x - k * y) * v - (b - k * a) == (x * v - b) + (-k) * (y * v - a)) by(nonlinear_arith);
    lemma_div_comb(y * v - a, x * v - b, -k, m);
}
proof fn lemma_step_bound(a: int, b: int, x: int, y: int, k: int, m: int)
    requires a >= 1, b >= 0, k >= 0, k * a <= b, a * iabs(x) + b * iabs(y) == m, (x <= 0 && 0 <= y) || (y <= 0 && 0 <= x),
    ensures (b - k * a) * iabs(y) + a * iabs(x - k * y) == m, iabs(x - k * y) == iabs(x) + k * iabs(y),
        iabs(x - k * y) <= m, iabs(k * y) <= m, iabs(k * a) <= b,
        (y <= 0 && 0 <= x - k * y) || (x - k * y <= 0 && 0 <= y),
{
    assert(iabs(x - k * y) == iabs(x) + k * iabs(y)) by(nonlinear_arith) requires k >= 0, (x <= 0 && 0 <= y) || (y <= 0 && 0 <= x);
    assert((b - k * a) * iabs(y) + a * (iabs(x) + k * iabs(y)) == a * iabs(x) + b * iabs(y)) by(nonlinear_arith);
    assert(a * iabs(x - k * y) <= m) by(nonlinear_arith) requires (b - k * a) * iabs(y) + a * iabs(x - k * y) == m, b - k * a >= 0, iabs(y) >= 0;
    assert(iabs(x - k * y) <= m) by(nonlinear_arith) requires a * iabs(x - k * y) <= m, a >= 1, iabs(x - k * y) >= 0;
    assert(iabs(k * y) == k * iabs(y)) by(nonlinear_arith) requires k >= 0;
    assert((y <= 0 && 0 <= x - k * y) || (x - k * y <= 0 && 0 <= y)) by(nonlinear_arith) requires k >= 0, (x <= 0 && 0 <= y) || (y <= 0 && 0 <= x);
    assert(k * a >= 0) by(nonlinear_arith) requires k >= 0, a >= 1;
}

// one square-and-multiply step preserves  r * a^d  (mod m)
proof fn lemma_pow_step(r: int, a: int, d: nat, m: int)
    requires m >= 2, d > 0
    ensures
        d % 2 == 1 ==> (((r * a) % m) * pow((a * a) % m, d / 2)) % m == (r * pow(a, d)) % m,
        d % 2 == 0 ==> (r * pow((a * a) % m, d / 2)) % m == (r * pow(a, d)) % m,
{
    let h = d / 2;
    // pow(a*a, h) == pow(a, 2h)
    lemma_pow_multiplies(a, 2, h);
    lemma_pow1(a); lemma_pow_adds(a, 1, 1);
    assert(pow(a, 2) == a * a);
    // pow((a*a) % m, h) % m == pow(a*a, h) % m
    lemma_pow_mod_noop(a * a, h, m);
    let x = pow(a * a, h); let y = pow((a * a) % m, h);
    assert(y % m == x % m);
    if d % 2 == 1 {
        assert(d == 2 * h + 1);
        lemma_pow_adds(a, 1, 2 * h);
        assert(pow(a, d) == a * pow(a, 2 * h));
        // ((r*a)%m * y) % m == (r*a*x) % m
        lemma_mul_mod_noop_general(r * a, y, m);
        lemma_mul_mod_noop_general(r * a, x, m);
        assert((r * a) * x == r * (a * x)) by(nonlinear_arith);
    } else {
        assert(d == 2 * h);
        lemma_mul_mod_noop_general(r, y, m);
        lemma_mul_mod_noop_general(r, x, m);
    }
}
impl<const M: u32> Modular<M> {
    pub const ZERO: Self = Self { v: 0 };
    pub const ONE: Self = Self { v: 1 };
    pub open spec fn wf(self) -> bool { self.v < M }

    pub fn new(v: i64) -> (r: Self)
        requires 2 <= M < 0x8000_0000,
        ensures r.wf(), r.v as int == v as int % (M as int),
    {
        let ghost x = v as int; let ghost m = M as int;
        let mut v = (v % M as i64) as i32;
        proof {
            if x == 0 { lemma_small_mod(0, m as nat); }
            if x < 0 {
                let k = (-x) % m; let q = (-x) / m;
                lemma_fundamental_div_mod(-x, m);
                assert(-x == m * q + k);
                if k == 0 {
                    assert(x == (-q) * m + 0) by(nonlinear_arith) requires -x == m * q + k, k == 0;
                    lemma_fundamental_div_mod_converse(x, m, -q, 0);
                } else {
                    assert(x == (-q - 1) * m + (m - k)) by(nonlinear_arith) requires -x == m * q + k;
                    lemma_fundamental_div_mod_converse(x, m, -q - 1, m - k);
                }
            }
        }
        if v < 0 {
            v += M as i32;
        }
        Self { v: v as u32 }
    }

    pub fn inv(&self) -> (r: Self)
        requires self.wf(), 2 <= M < 0x8000_0000,
        ensures r.wf(),
            exists|g: int| #[trigger] cdiv(g, self.v as int, M as int) && (r.v * self.v) % (M as int) == g % (M as int),
    {
        let mut a = self.v as i32;
        let mut b = M as i32;
        let mut x = 0;
        let mut y = 1;
        let ghost v = self.v as int; let ghost m = M as int;
        proof { assert((a as int) * 0 == 0) by(nonlinear_arith); assert((b as int) * 1 == b as int) by(nonlinear_arith); lemma_small_mod(0, m as nat); assert((1 * v - v) % m == 0); assert((0 * v - m) % m == 0) by { lemma_mod_self_0(m); lemma_div_comb(m, 0, -1, m); } }
        while a != 0
            invariant 0 <= a, 1 <= b, m == M as int, v == self.v as int, 2 <= m < 0x8000_0000,
                ((y as int) * v - a) % m == 0, ((x as int) * v - b) % m == 0,
                a * iabs(x as int) + b * iabs(y as int) == m,
                ((x as int) <= 0 && 0 <= (y as int)) || ((y as int) <= 0 && 0 <= (x as int)),
                forall|d: int| #[trigger] cdiv(d, a as int, b as int) ==> cdiv(d, v, m),
            decreases a
        {
            let k = b / a;
            proof {
                lemma_fundamental_div_mod(b as int, a as int);
                assert(k * a <= b) by(nonlinear_arith) requires b == a * k + (b as int) % (a as int), (b as int) % (a as int) >= 0;
                lemma_step_bound(a as int, b as int, x as int, y as int, k as int, m);
                lemma_cong_step(x as int, y as int, k as int, v, a as int, b as int, m);
                assert forall|d: int| #[trigger] cdiv(d, b - k * a, a as int) implies cdiv(d, v, m) by {
                    lemma_div_comb(a as int, b - k * a, k as int, d);
                    assert(b - k * a + k * a == b);
                    assert(cdiv(d, a as int, b as int));
                }
                lemma_mod_bound(b as int, a as int);
                assert(b - k * a == (b as int) % (a as int)) by(nonlinear_arith) requires b == a * k + (b as int) % (a as int);
            }
            b -= k * a;
            x -= k * y;
            std::mem::swap(&mut a, &mut b);
            std::mem::swap(&mut x, &mut y);
        }
        let r = Self::new(x as i64);
        proof {
            // a == 0:  b divides v and m;  x*v == b (mod m)
            assert((b as int) % (b as int) == 0) by { lemma_mod_self_0(b as int); }
            assert(0int % (b as int) == 0) by { lemma_small_mod(0, b as nat); }
            let g = b as int;
            assert(cdiv(g, a as int, b as int));
            assert(cdiv(g, v, m));
            // r.v == x mod m  ==>  r.v * v == x * v == g  (mod m)
            lemma_mul_mod_noop_left(x as int, v, m);
            assert((x * v) % m == g % m) by {
                lemma_fundamental_div_mod(x * v - g, m);
                let q = (x * v - g) / m;
                assert(x * v == q * m + g) by(nonlinear_arith) requires x * v - g == m * q + 0;
                lemma_mod_multiples_vanish(q, g, m);
            }
        }
        r
    }

    pub fn md() -> (r: u32) ensures r == M {
        M
    }

    pub fn pow(&self, mut d: u64) -> (r: Self)
        requires self.wf(), okm::<M>(),
        ensures r.wf(), r.v as int == pow(self.v as int, d as nat) % (M as int),
    {
        let mut res = Self::ONE;
        let mut a = *self;
        let ghost m = M as int; let ghost b = self.v as int; let ghost d0 = d;
        proof { lemma_pow0(b); lemma_small_mod(1, m as nat); }
        while d != 0
            invariant a.wf(), res.wf(), okm::<M>(), m == M as int,
                // res * a^d == b^d0   (mod M)
                (res.v * pow(a.v as int, d as nat)) % m == pow(b, d0 as nat) % m,
            decreases d,
        {
            proof { lemma_pow_step(res.v as int, a.v as int, d as nat, m); }
            if d % 2 == 1 {
                res *= a;
            }
            a *= a;
            d /= 2;
        }
        proof { lemma_pow0(a.v as int); lemma_small_mod(res.v as nat, m as nat); assert(res.v * 1 == res.v) by(nonlinear_arith); }
        res
    }
}

pub open spec fn okm<const M: u32>() -> bool { 2 <= M < 0x8000_0000 }
pub open spec fn mk<const M: u32>(x: int) -> Modular<M> { Modular { v: (x % (M as int)) as u32 } }

impl<const M: u32> vstd::std_specs::ops::AddSpecImpl for Modular<M> {
    open spec fn obeys_add_spec() -> bool { true }
    open spec fn add_req(self, rhs: Self) -> bool { self.wf() && rhs.wf() && okm::<M>() }
    open spec fn add_spec(self, rhs: Self) -> Self { mk::<M>(self.v + rhs.v) }
}
impl<const M: u32> Add for Modular<M> {
    type Output = Self;
    fn add(self, rhs: Self) -> Self {
        proof { let m = M as int; let t = self.v + rhs.v;
            if t >= m { lemma_fundamental_div_mod_converse(t, m, 1, t - m); } else { lemma_small_mod(t as nat, m as nat); } }
        let mut v = self.v + rhs.v;
        if v >= M {
            v -= M;
        }
        Self { v }
    }
}
impl<const M: u32> vstd::std_specs::ops::SubSpecImpl for Modular<M> {
    open spec fn obeys_sub_spec() -> bool { true }
    open spec fn sub_req(self, rhs: Self) -> bool { self.wf() && rhs.wf() && okm::<M>() }
    open spec fn sub_spec(self, rhs: Self) -> Self { mk::<M>(self.v - rhs.v) }
}
impl<const M: u32> Sub for Modular<M> {
    type Output = Self;
    fn sub(self, rhs: Self) -> Self {
        proof { let m = M as int; let t = self.v - rhs.v;
            if t >= 0 { lemma_small_mod(t as nat, m as nat); } else { lemma_fundamental_div_mod_converse(t, m, -1, t + m); } }
        let mut v = self.v + Self::md() - rhs.v;
        if v >= M {
            v -= M;
        }
        Self { v }
    }
}
impl<const M: u32> vstd::std_specs::ops::MulSpecImpl for Modular<M> {
    open spec fn obeys_mul_spec() -> bool { true }
    open spec fn mul_req(self, rhs: Self) -> bool { self.wf() && rhs.wf() && okm::<M>() }
    open spec fn mul_spec(self, rhs: Self) -> Self { mk::<M>(self.v * rhs.v) }
}
impl<const M: u32> Mul for Modular<M> {
    type Output = Self;
    fn mul(self, rhs: Self) -> Self {
        proof { assert(0 <= self.v * rhs.v < 0x8000_0000 * 0x8000_0000) by(nonlinear_arith) requires self.v < 0x8000_0000, rhs.v < 0x8000_0000; }
        Self::new(self.v as i64 * rhs.v as i64)
    }
}
impl<const M: u32> vstd::std_specs::ops::NegSpecImpl for Modular<M> {
    open spec fn obeys_neg_spec() -> bool { true }
    open spec fn neg_req(self) -> bool { self.wf() && okm::<M>() }
    open spec fn neg_spec(self) -> Self { mk::<M>(-(self.v as int)) }
}
impl<const M: u32> Neg for Modular<M> {
    type Output = Self;
    fn neg(self) -> Self {
        proof { let m = M as int; let t = -(self.v as int);
            if t == 0 { lemma_small_mod(0, m as nat); } else { lemma_fundamental_div_mod_converse(t, m, -1, t + m); } }
        if self.v == 0 {
            self
        } else {
            Self { v: Self::md() - self.v }
        }
    }
}
impl<const M: u32> vstd::std_specs::ops::MulAssignSpecImpl for Modular<M> {
    open spec fn obeys_mul_assign_spec() -> bool { true }
    open spec fn mul_assign_req(self, rhs: Self) -> bool { self.wf() && rhs.wf() && okm::<M>() }
    open spec fn mul_assign_spec(self, rhs: Self) -> Self { mk::<M>(self.v * rhs.v) }
}
impl<const M: u32> MulAssign for Modular<M> {
    fn mul_assign(&mut self, rhs: Self) {
        *self = *self * rhs;
    }
}
} // verus!
fn main() {}
