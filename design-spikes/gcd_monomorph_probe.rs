use vstd::prelude::*;
use std::ops::*;
use std::cmp::*;
verus! {
pub assume_specification [i64::abs] (x: i64) -> (r: i64)
    requires x != i64::MIN,
    ensures r == (if x < 0 { -x } else { x as int });
pub trait ZeroOne {
    const ZERO: Self;
    const ONE: Self;
}
pub trait Integer: ZeroOne + Sized
{
    fn abs(&self) -> Self;
    fn into_abs(self) -> Self;
}
impl ZeroOne for i64 {
    const ZERO: i64 = 0 as i64;
    const ONE: i64 = 1 as i64;
}
impl Integer for i64 {
    fn abs(&self) -> Self {
        <i64>::abs(*self)
    }
    fn into_abs(self) -> Self {
        <i64>::abs(self)
    }
}
type T = i64;
#[verifier::exec_allows_no_decreases_clause]
pub fn gcd(a: T, b: T) -> T {
    let mut a = a.into_abs();
    let mut b = b.into_abs();
    while b != T::ZERO {
        a %= &b;
        std::mem::swap(&mut a, &mut b);
    }
    a
}

pub fn lcm(a: T, b: T) -> T {
    let b_abs = b.abs();
    a.abs() / &gcd(a, b) * &b_abs
}
#[verifier::exec_allows_no_decreases_clause]
pub fn egcd(a: T, b: T, c: T) -> Option<(T, T)> {
    if a == T::ZERO {
        if c.clone() % &b != T::ZERO {
            return None;
        }
        return Some((T::ZERO, c / &b));
    }
    let (y0, x0) = egcd(b.clone() % &a, a.clone(), c)?;
    Some((x0 - &((b / &a) * &y0), y0))
}
pub fn crt(a1: T, m1: T, a2: T, m2: T) -> Option<T> {
    let g = gcd(m1.clone(), m2.clone());
    let (x, _) = egcd(m1.clone(), -m2.clone(), a2 - &a1)?;
    let m2 = m2 / &g;
    let x = (x % &m2 + &m2) % &m2;
    Some(m1 * &x + &a1)
}
} // verus!
fn main() {}
