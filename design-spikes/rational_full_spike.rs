use vstd::prelude::*;
use std::ops::*;
use vstd::arithmetic::div_mod::*;
use vstd::arithmetic::mul::*;
verus! {
pub open spec fn dvd(d: int, m: int) -> bool { d > 0 && m % d == 0 }
pub open spec fn is_lpf(p: int, m: int) -> bool {
    2 <= p <= m && dvd(p, m) && forall|d: int| 2 <= d < p ==> !#[trigger] dvd(d, m)
}
pub open spec fn prime(m: int) -> bool { is_lpf(m, m) }

pub proof fn lemma_dvd_mul(d: int, k: int)
    requires d > 0
    ensures dvd(d, d * k), dvd(d, k * d)
{
    lemma_mod_multiples_basic(k, d);
    assert(d * k == k * d) by(nonlinear_arith);
}
pub proof fn lemma_dvd_quot(d: int, m: int)
    requires dvd(d, m)
    ensures m == d * (m / d)
{
    lemma_fundamental_div_mod(m, d);
}
pub proof fn lemma_dvd_sub(d: int, a: int, b: int)
    requires dvd(d, a), dvd(d, b)
    ensures dvd(d, a - b), dvd(d, a + b)
{
    lemma_dvd_quot(d, a); lemma_dvd_quot(d, b);
    assert(a - b == d * (a / d - b / d)) by(nonlinear_arith) requires a == d * (a / d), b == d * (b / d);
    assert(a + b == d * (a / d + b / d)) by(nonlinear_arith) requires a == d * (a / d), b == d * (b / d);
    lemma_dvd_mul(d, a / d - b / d); lemma_dvd_mul(d, a / d + b / d);
}
pub proof fn lemma_dvd_mul_right(d: int, a: int, k: int)
    requires dvd(d, a)
    ensures dvd(d, a * k), dvd(d, k * a)
{
    lemma_dvd_quot(d, a);
    assert(a * k == d * ((a / d) * k)) by(nonlinear_arith) requires a == d * (a / d);
    lemma_dvd_mul(d, (a / d) * k);
    assert(a * k == k * a) by(nonlinear_arith);
}
pub proof fn lemma_dvd_le(d: int, m: int)
    requires dvd(d, m), m > 0
    ensures d <= m
{
    lemma_dvd_quot(d, m);
    if d > m { assert(m / d == 0) by { lemma_basic_div(m, d); } assert(d * 0 == 0); }
}
pub proof fn lemma_dvd_trans(a: int, b: int, c: int)
    requires dvd(a, b), dvd(b, c)
    ensures dvd(a, c)
{
    lemma_dvd_quot(b, c);
    lemma_dvd_mul_right(a, b, c / b);
}

// every m >= 2 has a least prime factor
pub proof fn lemma_lpf_exists(m: int) -> (p: int)
    requires m >= 2
    ensures is_lpf(p, m)
{
    lemma_lpf_search(m, 2)
}
proof fn lemma_lpf_search(m: int, c: int) -> (p: int)
    requires m >= 2, 2 <= c <= m, forall|d: int| 2 <= d < c ==> !#[trigger] dvd(d, m)
    ensures is_lpf(p, m)
    decreases m - c
{
    if dvd(c, m) { c } else {
        assert(c < m) by { if c == m { lemma_mod_self_0(m); } }
        lemma_lpf_search(m, c + 1)
    }
}
pub proof fn lemma_lpf_is_prime(p: int, m: int)
    requires is_lpf(p, m)
    ensures prime(p)
{
    lemma_mod_self_0(p);
    assert forall|d: int| 2 <= d < p implies !#[trigger] dvd(d, p) by {
        if dvd(d, p) { lemma_dvd_trans(d, p, m); }
    }
}

// Euclid's lemma by descent on a
pub proof fn lemma_euclid(r: int, a: int, b: int)
    requires prime(r), a >= 1, b >= 1, dvd(r, a * b)
    ensures dvd(r, a) || dvd(r, b)
    decreases a
{
    if dvd(r, a) { return; }
    if a >= r {
        let a2 = a % r; let q = a / r;
        lemma_fundamental_div_mod(a, r);
        assert(a2 >= 1);
        // r | a2*b = a*b - q*r*b
        assert(a2 * b == a * b - r * (q * b)) by(nonlinear_arith) requires a == r * q + a2;
        lemma_dvd_mul(r, q * b);
        lemma_dvd_sub(r, a * b, r * (q * b));
        lemma_euclid(r, a2, b);
        if dvd(r, a2) { lemma_small_mod(a2 as nat, r as nat); }
    } else {
        if a == 1 { assert(1 * b == b); return; }
        let s = r % a; let q = r / a;
        lemma_fundamental_div_mod(r, a);
        if s == 0 {
            assert(dvd(a, r));
            assert(false);
        } else {
            assert(s * b == r * b - q * (a * b)) by(nonlinear_arith) requires r == a * q + s;
            lemma_dvd_mul(r, b);
            lemma_dvd_mul_right(r, a * b, q);
            lemma_dvd_sub(r, r * b, q * (a * b));
            lemma_euclid(r, s, b);
            if dvd(r, s) { lemma_small_mod(s as nat, r as nat); }
        }
    }
}

// least prime factor of a product p*i when p is prime and p <= lpf(i)
pub proof fn lemma_lpf_mul(p: int, i: int, l: int)
    requires prime(p), i >= 2, is_lpf(l, i), p <= l
    ensures is_lpf(p, p * i)
{
    lemma_dvd_mul(p, i);
    assert(p * i >= p) by(nonlinear_arith) requires p >= 2, i >= 2;
    assert forall|d: int| 2 <= d < p implies !#[trigger] dvd(d, p * i) by {
        if dvd(d, p * i) {
            let r = lemma_lpf_exists(d);
            lemma_lpf_is_prime(r, d);
            lemma_dvd_trans(r, d, p * i);
            lemma_euclid(r, p, i);
            // r < p <= l: r does not divide p (p prime) nor i (l is lpf of i)
            assert(!dvd(r, p));
            assert(!dvd(r, i));
        }
    }
}

pub open spec fn sgcd(a: nat, b: nat) -> nat decreases b { if b == 0 { a } else { sgcd(b, a % b) } }

// Bezout: gcd is an integer combination
pub proof fn lemma_bezout(a: nat, b: nat) -> (uv: (int, int))
    ensures a * uv.0 + b * uv.1 == sgcd(a, b)
    decreases b
{
    if b == 0 { assert(a * 1 + 0 * 0 == a) by(nonlinear_arith); (1, 0) } else {
        let (u, v) = lemma_bezout(b, a % b);
        lemma_fundamental_div_mod(a as int, b as int);
        let q = (a / b) as int; let r = (a % b) as int;
        assert(a * v + b * (u - q * v) == b * u + r * v) by(nonlinear_arith) requires a == b * q + r;
        (v, u - q * v)
    }
}
// Gauss: gcd(a,b)=1 and b | a*c  ==>  b | c
pub proof fn lemma_gauss(a: nat, b: nat, c: int)
    requires sgcd(a, b) == 1, b > 0, dvd(b as int, a * c)
    ensures dvd(b as int, c)
{
    let (u, v) = lemma_bezout(a, b);
    // c = c*(a*u + b*v) = (a*c)*u + b*(c*v)
    assert(c == (a * c) * u + b * (c * v)) by(nonlinear_arith) requires a * u + b * v == 1;
    lemma_dvd_mul_right(b as int, a * c, u);
    lemma_dvd_mul(b as int, c * v);
    lemma_dvd_sub(b as int, (a * c) * u, b * (c * v));
}
pub open spec fn nabs(x: int) -> nat { if x < 0 { (-x) as nat } else { x as nat } }
pub open spec fn canon(a: int, b: int) -> bool { b > 0 && sgcd(nabs(a), b as nat) == 1 }

proof fn lemma_dvd_abs(d: int, x: int)
    requires d > 0
    ensures dvd(d, x) == dvd(d, nabs(x) as int)
{
    if x < 0 {
        if dvd(d, x) { lemma_dvd_sub(d, 0, x); lemma_small_mod(0, d as nat); }
        if dvd(d, -x) { lemma_dvd_sub(d, 0, -x); lemma_small_mod(0, d as nat); }
    }
}

// canonical representations of the same value are identical  (derived Eq / Hash clause of C07)
pub proof fn lemma_canon_unique(a1: int, b1: int, a2: int, b2: int)
    requires canon(a1, b1), canon(a2, b2), a1 * b2 == a2 * b1
    ensures a1 == a2, b1 == b2
{
    // b1 | a1*b2 and gcd(|a1|, b1) = 1  ==>  b1 | b2 ; symmetric
    lemma_dvd_mul(b1, a2); lemma_dvd_mul(b2, a1);
    assert(dvd(b1, a1 * b2));
    assert(dvd(b2, a2 * b1));
    lemma_dvd_abs(b1, a1 * b2); lemma_dvd_abs(b2, a2 * b1);
    assert(nabs(a1 * b2) == nabs(a1) * b2) by(nonlinear_arith) requires b2 > 0;
    assert(nabs(a2 * b1) == nabs(a2) * b1) by(nonlinear_arith) requires b1 > 0;
    lemma_gauss(nabs(a1), b1 as nat, b2);
    lemma_gauss(nabs(a2), b2 as nat, b1);
    lemma_dvd_le(b1, b2); lemma_dvd_le(b2, b1);
    assert(a1 == a2) by(nonlinear_arith) requires a1 * b2 == a2 * b1, b1 == b2, b1 > 0;
}

// ---- more gcd facts ----
pub proof fn lemma_sgcd_dvd(a: nat, b: nat)
    requires a > 0 || b > 0
    ensures sgcd(a, b) > 0, dvd(sgcd(a, b) as int, a as int), dvd(sgcd(a, b) as int, b as int)
    decreases b
{
    if b == 0 { lemma_mod_self_0(a as int); lemma_small_mod(0, a); } else {
        lemma_mod_bound(a as int, b as int);
        lemma_sgcd_dvd(b, a % b);
        let g = sgcd(a, b) as int;
        lemma_fundamental_div_mod(a as int, b as int);
        lemma_dvd_mul_right(g, b as int, (a / b) as int);
        lemma_dvd_sub(g, (b * (a / b)) as int, (a % b) as int);
    }
}
// dividing out the gcd leaves coprime numbers
pub proof fn lemma_sgcd_reduced(a: nat, b: nat)
    requires b > 0
    ensures sgcd(a, b) > 0, sgcd(a / sgcd(a, b), b / sgcd(a, b)) == 1
{
    lemma_sgcd_dvd(a, b);
    let g = sgcd(a, b); let a1 = a / g; let b1 = b / g;
    lemma_dvd_quot(g as int, a as int); lemma_dvd_quot(g as int, b as int);
    let (u, v) = lemma_bezout(a, b);
    assert(a1 * u + b1 * v == 1) by(nonlinear_arith) requires a * u + b * v == g, a == g * a1, b == g * b1, g > 0;
    assert(b1 > 0) by(nonlinear_arith) requires b == g * b1, b > 0, g > 0;
    lemma_sgcd_dvd(a1, b1);
    let h = sgcd(a1, b1) as int;
    lemma_dvd_mul_right(h, a1 as int, u); lemma_dvd_mul_right(h, b1 as int, v);
    lemma_dvd_sub(h, a1 * u, b1 * v);
    lemma_dvd_le(h, 1);
}
pub assume_specification [i64::abs] (x: i64) -> (r: i64)
    requires x != i64::MIN,
    ensures r == (if x < 0 { -x } else { x as int });

pub trait ZeroOne {
    const ZERO: Self;
    const ONE: Self;
}
pub trait Integer: ZeroOne + Sized
{
    spec fn as_int(&self) -> int;
    spec fn abs_ok(&self) -> bool;
    fn abs(&self) -> (r: Self) requires self.abs_ok(), ensures r.as_int() == iabs(self.as_int());
    fn into_abs(self) -> (r: Self) requires self.abs_ok(), ensures r.as_int() == iabs(self.as_int());
}
impl ZeroOne for i64 {
    const ZERO: i64 = 0 as i64;
    const ONE: i64 = 1 as i64;
}
impl Integer for i64 {
    open spec fn as_int(&self) -> int { *self as int }
    open spec fn abs_ok(&self) -> bool { *self != i64::MIN }
    fn abs(&self) -> (r: Self)
    {
        <i64>::abs(*self)
    }
    fn into_abs(self) -> (r: Self)
    {
        <i64>::abs(self)
    }
}
type T = i64;

pub open spec fn iabs(x: int) -> int { if x < 0 { -x } else { x } }


pub open spec fn imax(a: int, b: int) -> int { if a > b { a } else { b } }
pub const B: i64 = 0x10_0000;   // 2^20, B^3 = 2^60 fits i64

// truncating division facts (vstd models exec `/`, `%` on signed ints by rust_div / rust_rem)
pub open spec fn tdiv(x: int, y: int) -> int { rust_div(x, y) }
pub open spec fn trem(x: int, y: int) -> int { rust_rem(x, y) }

proof fn lemma_euc_neg_divisor(x: int, y: int)
    requires x >= 0, y < 0
    ensures x / y == -(x / (-y)), x % y == x % (-y)
{
    let q = x / (-y); let r = x % (-y);
    lemma_fundamental_div_mod(x, -y);
    lemma_mod_bound(x, -y);
    lemma_fundamental_div_mod(x, y);
    let q2 = x / y; let r2 = x % y;
    // Euclidean remainder is in [0, |y|) for any non-zero divisor
    assert(0 <= r2 < -y) by(nonlinear_arith) requires y < 0, r2 == x % y;
    let d = -y; let k = q + q2;
    assert(d * k == r2 - r) by(nonlinear_arith) requires x == (-y) * q + r, x == y * q2 + r2, d == -y, k == q + q2;
    if k >= 1 { assert(d * k >= d) by(nonlinear_arith) requires d > 0, k >= 1; }
    if k <= -1 { assert(d * k <= -d) by(nonlinear_arith) requires d > 0, k <= -1; }
    assert(k == 0);
    assert(d * 0 == 0);
}

proof fn lemma_trunc(x: int, y: int)
    requires y != 0
    ensures x == y * tdiv(x, y) + trem(x, y), iabs(trem(x, y)) < iabs(y), iabs(tdiv(x, y)) <= iabs(x),
        iabs(x) == iabs(tdiv(x, y)) * iabs(y) + iabs(trem(x, y)),
        x >= 0 ==> trem(x, y) >= 0, x <= 0 ==> trem(x, y) <= 0,
{
    let ax = iabs(x); let ay = iabs(y);
    lemma_fundamental_div_mod(ax, ay);
    lemma_mod_bound(ax, ay);
    lemma_div_pos_is_pos(ax, ay);
    let q = ax / ay; let r = ax % ay;
    assert(q <= ax) by(nonlinear_arith) requires ax == ay * q + r, r >= 0, ay >= 1, q >= 0;
    if y < 0 { lemma_euc_neg_divisor(ax, y); }
    if x == 0 { lemma_small_mod(0, ay as nat); lemma_div_basics_2(ay); assert(q == 0) by { lemma_basic_div(0, ay); } }
    // tdiv(x,y) = +-q, trem(x,y) = +-r with the sign of x
    assert(tdiv(x, y) == (if (x >= 0) == (y > 0) { q } else { -q }));
    assert(trem(x, y) == (if x >= 0 { r } else { -r }));
    assert(x == y * tdiv(x, y) + trem(x, y)) by(nonlinear_arith) requires ax == ay * q + r, ax == iabs(x), ay == iabs(y),
        tdiv(x, y) == (if (x >= 0) == (y > 0) { q } else { -q }), trem(x, y) == (if x >= 0 { r } else { -r });
    assert(q * ay == ay * q) by(nonlinear_arith);
}
pub fn gcd(a: T, b: T) -> (r: T)
    requires a != i64::MIN, b != i64::MIN,
    ensures r == sgcd(iabs(a as int) as nat, iabs(b as int) as nat), r >= 0,
{
    let mut a = a.into_abs();
    let mut b = b.into_abs();
    let ghost a0 = a; let ghost b0 = b;
    while b != T::ZERO
        invariant a >= 0, b >= 0, a0 >= 0, b0 >= 0, sgcd(a as nat, b as nat) == sgcd(a0 as nat, b0 as nat),
        decreases b,
    {
        proof { lemma_mod_bound(a as int, b as int); if a == 0 { lemma_small_mod(0, b as nat); }
            assert(sgcd(a as nat, b as nat) == sgcd(b as nat, (a as nat) % (b as nat))); }
        a = a % &b;
        std::mem::swap(&mut a, &mut b);
    }
    a
}


pub struct Rational<T> {
    pub a: T,
    pub b: T,
}
impl Clone for Rational<T> { fn clone(&self) -> (r: Self) ensures r == *self { Rational { a: self.a.clone(), b: self.b.clone() } } }
impl Copy for Rational<T> {}
pub open spec fn sm(v: int) -> bool { -0x4000_0000 <= v <= 0x4000_0000 }     // 2^30: the property's bound for i64
pub open spec fn md(v: int) -> bool { -0x4000_0000_0000_0000 < v < 0x4000_0000_0000_0000 }   // what norm can take

proof fn lemma_exact_div(x: int, g: int)
    requires g > 0, dvd(g, iabs(x))
    ensures tdiv(x, g) * g == x, iabs(tdiv(x, g)) == iabs(x) / g, iabs(tdiv(x, g)) <= iabs(x)
{
    lemma_trunc(x, g);
    lemma_dvd_quot(g, iabs(x));
    // |x| == |q|*g + |r|, g | |x|  ==> |r| == 0
    let q = iabs(tdiv(x, g)); let r = iabs(trem(x, g));
    assert(iabs(x) == q * g + r);
    lemma_fundamental_div_mod_converse(iabs(x), g, q, r);
    assert(r == 0);
    assert(tdiv(x, g) * g == g * tdiv(x, g)) by(nonlinear_arith);
}

impl Rational<T> {
    pub open spec fn canonical(self) -> bool { canon(self.a as int, self.b as int) }

    fn norm(&mut self)
        requires old(self).b != 0, md(old(self).a as int), md(old(self).b as int),
        ensures final(self).canonical(), final(self).a * old(self).b == old(self).a * final(self).b,
            iabs(final(self).a as int) <= iabs(old(self).a as int), iabs(final(self).b as int) <= iabs(old(self).b as int),
    {
        let ghost a0 = self.a as int; let ghost b0 = self.b as int;
        let g = gcd(self.a.clone(), self.b.clone());
        proof {
            lemma_sgcd_dvd(iabs(a0) as nat, iabs(b0) as nat);
            lemma_sgcd_reduced(iabs(a0) as nat, iabs(b0) as nat);
            lemma_exact_div(a0, g as int); lemma_exact_div(b0, g as int);
        }
        self.a = self.a / &g;
        self.b = self.b / &g;
        proof {
            assert(self.a * b0 == a0 * self.b) by(nonlinear_arith) requires self.a * g == a0, self.b * g == b0;
            assert(self.b != 0) by(nonlinear_arith) requires self.b * g == b0, b0 != 0;
            assert(nabs(self.a as int) == (iabs(a0) as nat) / (g as nat));
            assert(nabs(self.b as int) == (iabs(b0) as nat) / (g as nat));
        }
        if self.b < T::ZERO {
            // surely there is a better way
            let mut x = T::ZERO;
            std::mem::swap(&mut x, &mut self.b);
            self.b = -x;
            let mut x = T::ZERO;
            std::mem::swap(&mut x, &mut self.a);
            self.a = -x;
            proof {
                assert(self.a * b0 == a0 * self.b) by(nonlinear_arith) requires (-(self.a as int)) * b0 == a0 * (-(self.b as int));
            }
        }
    }

    pub fn new(a: T, b: T) -> (r: Self)
        requires b != 0, md(a as int), md(b as int),
        ensures r.canonical(), r.a * b == a * r.b, iabs(r.a as int) <= iabs(a as int), iabs(r.b as int) <= iabs(b as int),
    {
        let mut r = Self { a, b };
        r.norm();
        r
    }
}

impl Rational<T> {
    pub open spec fn wf(self) -> bool { self.canonical() && sm(self.a as int) && sm(self.b as int) }
    pub fn floor(&self) -> (r: Self)
        requires self.wf(),
        ensures r.b == 1, r.a * self.b <= self.a < (r.a + 1) * self.b,
    {
        proof { lemma_trunc(self.a as int, self.b as int); lemma_trunc(self.a - self.b + 1, self.b as int);
            let b = self.b as int;
            if self.a >= 0 { let q = tdiv(self.a as int, b); assert((q + 1) * b == b * q + b) by(nonlinear_arith); assert(q * b == b * q) by(nonlinear_arith); }
            else { let q = tdiv(self.a - self.b + 1, b); assert((q + 1) * b == b * q + b) by(nonlinear_arith); assert(q * b == b * q) by(nonlinear_arith); } }
        if self.a >= T::ZERO {
            Self {
                a: self.a.clone() / &self.b,
                b: T::ONE,
            }
        } else {
            Self {
                a: (self.a.clone() - &self.b + &T::ONE) / &self.b,
                b: T::ONE,
            }
        }
    }
    pub fn ceil(&self) -> (r: Self)
        requires self.wf(),
        ensures r.b == 1, (r.a - 1) * self.b < self.a <= r.a * self.b,
    {
        proof { lemma_trunc(self.a as int, self.b as int); lemma_trunc(self.a + self.b - 1, self.b as int);
            let b = self.b as int;
            if self.a >= 0 { let q = tdiv(self.a + self.b - 1, b); assert((q - 1) * b == b * q - b) by(nonlinear_arith); assert(q * b == b * q) by(nonlinear_arith); }
            else { let q = tdiv(self.a as int, b); assert((q - 1) * b == b * q - b) by(nonlinear_arith); assert(q * b == b * q) by(nonlinear_arith); } }
        if self.a >= T::ZERO {
            Self {
                a: (self.a.clone() + &self.b - &T::ONE) / &self.b,
                b: T::ONE,
            }
        } else {
            Self {
                a: self.a.clone() / &self.b,
                b: T::ONE,
            }
        }
    }
}
proof fn lemma_prod_bounds(x: int, y: int)
    requires sm(x), sm(y)
    ensures -(0x4000_0000 * 0x4000_0000) <= x * y <= 0x4000_0000 * 0x4000_0000
{
    assert(-(0x4000_0000 * 0x4000_0000) <= x * y <= 0x4000_0000 * 0x4000_0000) by(nonlinear_arith) requires sm(x), sm(y);
}
impl vstd::std_specs::ops::AddSpecImpl<&Rational<T>> for Rational<T> {
    open spec fn obeys_add_spec() -> bool { false }
    open spec fn add_req(self, rhs: &Rational<T>) -> bool { self.wf() && rhs.wf() }
    open spec fn add_spec(self, rhs: &Rational<T>) -> Rational<T> { self }
}
impl Add<&Self> for Rational<T> {
    type Output = Self;
    fn add(self, rhs: &Self) -> (r: Self)
        ensures r.canonical(), r.a * (self.b * rhs.b) == (self.a * rhs.b + self.b * rhs.a) * r.b,
    {
        proof { lemma_prod_bounds(self.a as int, rhs.b as int); lemma_prod_bounds(self.b as int, rhs.a as int); lemma_prod_bounds(self.b as int, rhs.b as int);
            assert(self.b * rhs.b > 0) by(nonlinear_arith) requires self.b > 0, rhs.b > 0; }
        Self::new(self.a * &rhs.b + &(self.b.clone() * &rhs.a), self.b * &rhs.b)
    }
}
impl vstd::std_specs::ops::SubSpecImpl<&Rational<T>> for Rational<T> {
    open spec fn obeys_sub_spec() -> bool { false }
    open spec fn sub_req(self, rhs: &Rational<T>) -> bool { self.wf() && rhs.wf() }
    open spec fn sub_spec(self, rhs: &Rational<T>) -> Rational<T> { self }
}
impl Sub<&Self> for Rational<T> {
    type Output = Self;
    fn sub(self, rhs: &Self) -> (r: Self)
        ensures r.canonical(), r.a * (self.b * rhs.b) == (self.a * rhs.b - self.b * rhs.a) * r.b,
    {
        proof { lemma_prod_bounds(self.a as int, rhs.b as int); lemma_prod_bounds(self.b as int, rhs.a as int); lemma_prod_bounds(self.b as int, rhs.b as int);
            assert(self.b * rhs.b > 0) by(nonlinear_arith) requires self.b > 0, rhs.b > 0; }
        Self::new(self.a * &rhs.b - &(self.b.clone() * &rhs.a), self.b * &rhs.b)
    }
}
impl vstd::std_specs::ops::MulSpecImpl<&Rational<T>> for Rational<T> {
    open spec fn obeys_mul_spec() -> bool { false }
    open spec fn mul_req(self, rhs: &Rational<T>) -> bool { self.wf() && rhs.wf() }
    open spec fn mul_spec(self, rhs: &Rational<T>) -> Rational<T> { self }
}
impl Mul<&Self> for Rational<T> {
    type Output = Self;
    fn mul(self, rhs: &Self) -> (r: Self)
        ensures r.canonical(), r.a * (self.b * rhs.b) == (self.a * rhs.a) * r.b,
    {
        proof { lemma_prod_bounds(self.a as int, rhs.a as int); lemma_prod_bounds(self.b as int, rhs.b as int);
            assert(self.b * rhs.b > 0) by(nonlinear_arith) requires self.b > 0, rhs.b > 0; }
        Self::new(self.a * &rhs.a, self.b * &rhs.b)
    }
}
impl vstd::std_specs::ops::DivSpecImpl<&Rational<T>> for Rational<T> {
    open spec fn obeys_div_spec() -> bool { false }
    open spec fn div_req(self, rhs: &Rational<T>) -> bool { self.wf() && rhs.wf() && rhs.a != 0 }
    open spec fn div_spec(self, rhs: &Rational<T>) -> Rational<T> { self }
}
impl Div<&Self> for Rational<T> {
    type Output = Self;
    fn div(self, rhs: &Self) -> (r: Self)
        ensures r.canonical(), r.a * (self.b * rhs.a) == (self.a * rhs.b) * r.b,
    {
        proof { lemma_prod_bounds(self.a as int, rhs.b as int); lemma_prod_bounds(self.b as int, rhs.a as int);
            assert(self.b * rhs.a != 0) by(nonlinear_arith) requires self.b > 0, rhs.a != 0; }
        Self::new(self.a * &rhs.b, self.b * &rhs.a)
    }
}
impl Rational<T> {
    // body of `impl Ord for Rational<T>::cmp`
    fn cmp_body(&self, rhs: &Self) -> (o: std::cmp::Ordering)
        requires self.wf(), rhs.wf(),
        ensures
            o == std::cmp::Ordering::Less <==> self.a * rhs.b < rhs.a * self.b,
            o == std::cmp::Ordering::Equal <==> self.a * rhs.b == rhs.a * self.b,
            o == std::cmp::Ordering::Greater <==> self.a * rhs.b > rhs.a * self.b,
    {
        let d = self.clone().sub(rhs);
        proof {
            let p = (self.b as int) * (rhs.b as int); let n = (self.a as int) * (rhs.b as int) - (self.b as int) * (rhs.a as int);
            assert(p > 0) by(nonlinear_arith) requires self.b > 0, rhs.b > 0, p == (self.b as int) * (rhs.b as int);
            assert((d.a > 0) == (n > 0) && (d.a < 0) == (n < 0)) by(nonlinear_arith) requires d.a * p == n * d.b, p > 0, d.b > 0;
            assert(self.b * rhs.a == rhs.a * self.b) by(nonlinear_arith);
        }
        (d).a.cmp(&T::ZERO)
    }
}
} // verus!
fn main() {}
