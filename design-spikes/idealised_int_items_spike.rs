use vstd::prelude::*;
use std::ops::{Add, AddAssign, Mul};
use std::cmp::Ordering;
verus! {
// idealised integer: machine arithmetic treated as mathematical (ASSUMPTION)
#[derive(Clone, Copy)]
pub struct Z { pub x: i64 }
pub uninterp spec fn zv(z: Z) -> int;
pub uninterp spec fn zmk(i: int) -> Z;
pub broadcast axiom fn ax_zmk(i: int) ensures #[trigger] zv(zmk(i)) == i;
pub broadcast axiom fn ax_zext(a: Z, b: Z) ensures #[trigger] zv(a) == #[trigger] zv(b) ==> a == b;

impl Default for Z { #[verifier::external_body] fn default() -> (r: Z) ensures zv(r) == 0 { Z { x: 0 } } }

impl vstd::std_specs::cmp::PartialEqSpecImpl for Z {
    open spec fn obeys_eq_spec() -> bool { true }
    open spec fn eq_spec(&self, other: &Z) -> bool { zv(*self) == zv(*other) }
}
impl PartialEq for Z { #[verifier::external_body] fn eq(&self, other: &Z) -> bool { self.x == other.x } }
impl vstd::std_specs::cmp::PartialOrdSpecImpl for Z {
    open spec fn obeys_partial_cmp_spec() -> bool { true }
    open spec fn partial_cmp_spec(&self, other: &Z) -> Option<Ordering> {
        if zv(*self) < zv(*other) { Some(Ordering::Less) } else if zv(*self) == zv(*other) { Some(Ordering::Equal) } else { Some(Ordering::Greater) }
    }
}
impl PartialOrd for Z { #[verifier::external_body] fn partial_cmp(&self, other: &Z) -> Option<Ordering> { self.x.partial_cmp(&other.x) } }

impl vstd::std_specs::ops::AddAssignSpecImpl for Z {
    open spec fn obeys_add_assign_spec() -> bool { true }
    open spec fn add_assign_req(self, rhs: Z) -> bool { true }
    open spec fn add_assign_spec(self, rhs: Z) -> Z { zmk(zv(self) + zv(rhs)) }
}
impl AddAssign for Z { #[verifier::external_body] fn add_assign(&mut self, rhs: Z) { self.x = self.x.wrapping_add(rhs.x); } }

pub trait SegtreeItem<M = ()>: Sized {
    spec fn val(&self) -> int;
    spec fn pend(&self) -> int;
    fn merge(left: &Self, right: &Self) -> (r: Self) ensures r.val() == (if left.val() < right.val() { left.val() } else { right.val() }), r.pend() == 0;
    fn modify(&mut self, _modifier: &M);
}
#[derive(Clone)]
pub struct MinAdd<T: PartialOrd + AddAssign + Default + Clone> {
    pub v: T,
    pub md: T,
}
type T = Z;
impl MinAdd<T> {
    pub fn new(v: T) -> (r: Self) ensures r.v == v, zv(r.md) == 0 {
        Self { v, md: T::default() }
    }
}
impl SegtreeItem<T> for MinAdd<T> {
    open spec fn val(&self) -> int { zv(self.v) }
    open spec fn pend(&self) -> int { zv(self.md) }
    fn merge(left: &Self, right: &Self) -> Self {
        Self::new(if left.v < right.v {
            left.v.clone()
        } else {
            right.v.clone()
        })
    }

    fn modify(&mut self, modifier: &T) 
       ensures final(self).val() == old(self).val() + zv(*modifier), final(self).pend() == old(self).pend() + zv(*modifier)
    {
        broadcast use ax_zmk;
        self.v += modifier.clone();
        self.md += modifier.clone();
    }
}
} // verus!
fn main() {}
