use vstd::prelude::*;
use vstd::arithmetic::div_mod::*;
use vstd::arithmetic::mul::*;
verus! {
global size_of usize == 8;
pub open spec fn dvd(d: int, m: int) -> bool { d > 0 && m % d == 0 }
pub open spec fn is_lpf(p: int, m: int) -> bool {
    2 <= p <= m && dvd(p, m) && forall|d: int| 2 <= d < p ==> !#[trigger] dvd(d, m)
}
pub open spec fn prime(m: int) -> bool { is_lpf(m, m) }

pub proof fn lemma_dvd_mul(d: int, k: int)
    requires d > 0
    ensures dvd(d, d * k), dvd(d, k * d)
{
    lemma_mod_multiples_basic(k, d);
    assert(d * k == k * d) by(nonlinear_arith);
}
pub proof fn lemma_dvd_quot(d: int, m: int)
    requires dvd(d, m)
    ensures m == d * (m / d)
{
    lemma_fundamental_div_mod(m, d);
}
pub proof fn lemma_dvd_sub(d: int, a: int, b: int)
    requires dvd(d, a), dvd(d, b)
    ensures dvd(d, a - b), dvd(d, a + b)
{
    lemma_dvd_quot(d, a); lemma_dvd_quot(d, b);
    assert(a - b == d * (a / d - b / d)) by(nonlinear_arith) requires a == d * (a / d), b == d * (b / d);
    assert(a + b == d * (a / d + b / d)) by(nonlinear_arith) requires a == d * (a / d), b == d * (b / d);
    lemma_dvd_mul(d, a / d - b / d); lemma_dvd_mul(d, a / d + b / d);
}
pub proof fn lemma_dvd_mul_right(d: int, a: int, k: int)
    requires dvd(d, a)
    ensures dvd(d, a * k), dvd(d, k * a)
{
    lemma_dvd_quot(d, a);
    assert(a * k == d * ((a / d) * k)) by(nonlinear_arith) requires a == d * (a / d);
    lemma_dvd_mul(d, (a / d) * k);
    assert(a * k == k * a) by(nonlinear_arith);
}
pub proof fn lemma_dvd_le(d: int, m: int)
    requires dvd(d, m), m > 0
    ensures d <= m
{
    lemma_dvd_quot(d, m);
    if d > m { assert(m / d == 0) by { lemma_basic_div(m, d); } assert(d * 0 == 0); }
}
pub proof fn lemma_dvd_trans(a: int, b: int, c: int)
    requires dvd(a, b), dvd(b, c)
    ensures dvd(a, c)
{
    lemma_dvd_quot(b, c);
    lemma_dvd_mul_right(a, b, c / b);
}

// every m >= 2 has a least prime factor
pub proof fn lemma_lpf_exists(m: int) -> (p: int)
    requires m >= 2
    ensures is_lpf(p, m)
{
    lemma_lpf_search(m, 2)
}
proof fn lemma_lpf_search(m: int, c: int) -> (p: int)
    requires m >= 2, 2 <= c <= m, forall|d: int| 2 <= d < c ==> !#[trigger] dvd(d, m)
    ensures is_lpf(p, m)
    decreases m - c
{
    if dvd(c, m) { c } else {
        assert(c < m) by { if c == m { lemma_mod_self_0(m); } }
        lemma_lpf_search(m, c + 1)
    }
}
pub proof fn lemma_lpf_is_prime(p: int, m: int)
    requires is_lpf(p, m)
    ensures prime(p)
{
    lemma_mod_self_0(p);
    assert forall|d: int| 2 <= d < p implies !#[trigger] dvd(d, p) by {
        if dvd(d, p) { lemma_dvd_trans(d, p, m); }
    }
}

// Euclid's lemma by descent on a
pub proof fn lemma_euclid(r: int, a: int, b: int)
    requires prime(r), a >= 1, b >= 1, dvd(r, a * b)
    ensures dvd(r, a) || dvd(r, b)
    decreases a
{
    if dvd(r, a) { return; }
    if a >= r {
        let a2 = a % r; let q = a / r;
        lemma_fundamental_div_mod(a, r);
        assert(a2 >= 1);
        // r | a2*b = a*b - q*r*b
        assert(a2 * b == a * b - r * (q * b)) by(nonlinear_arith) requires a == r * q + a2;
        lemma_dvd_mul(r, q * b);
        lemma_dvd_sub(r, a * b, r * (q * b));
        lemma_euclid(r, a2, b);
        if dvd(r, a2) { lemma_small_mod(a2 as nat, r as nat); }
    } else {
        if a == 1 { assert(1 * b == b); return; }
        let s = r % a; let q = r / a;
        lemma_fundamental_div_mod(r, a);
        if s == 0 {
            assert(dvd(a, r));
            assert(false);
        } else {
            assert(s * b == r * b - q * (a * b)) by(nonlinear_arith) requires r == a * q + s;
            lemma_dvd_mul(r, b);
            lemma_dvd_mul_right(r, a * b, q);
            lemma_dvd_sub(r, r * b, q * (a * b));
            lemma_euclid(r, s, b);
            if dvd(r, s) { lemma_small_mod(s as nat, r as nat); }
        }
    }
}

// least prime factor of a product p*i when p is prime and p <= lpf(i)
pub proof fn lemma_lpf_mul(p: int, i: int, l: int)
    requires prime(p), i >= 2, is_lpf(l, i), p <= l
    ensures is_lpf(p, p * i)
{
    lemma_dvd_mul(p, i);
    assert(p * i >= p) by(nonlinear_arith) requires p >= 2, i >= 2;
    assert forall|d: int| 2 <= d < p implies !#[trigger] dvd(d, p * i) by {
        if dvd(d, p * i) {
            let r = lemma_lpf_exists(d);
            lemma_lpf_is_prime(r, d);
            lemma_dvd_trans(r, d, p * i);
            lemma_euclid(r, p, i);
            // r < p <= l: r does not divide p (p prime) nor i (l is lpf of i)
            assert(!dvd(r, p));
            assert(!dvd(r, i));
        }
    }
}

pub struct Sieve {
    pub isp: Vec<bool>,
    pub mnp: Vec<i32>,
    pub primes: Vec<i32>,
}

// table part of the invariant: entries written so far are least prime factors; nothing below 2 is written
pub open spec fn tab_ok(mnp: Seq<i32>) -> bool {
    &&& forall|m: int| 0 <= m < mnp.len() && #[trigger] mnp[m] != 0 ==> is_lpf(mnp[m] as int, m)
    &&& forall|m: int| 0 <= m < 2 && m < mnp.len() ==> #[trigger] mnp[m] == 0
}
// prime list: strictly increasing, all prime, all < bound, complete below bound
pub open spec fn primes_ok(ps: Seq<i32>, bound: int) -> bool {
    &&& forall|k: int| 0 <= k < ps.len() ==> prime(#[trigger] ps[k] as int) && ps[k] < bound
    &&& forall|k1: int, k2: int| 0 <= k1 < k2 < ps.len() ==> ps[k1] < ps[k2]
    &&& forall|q: int| 2 <= q < bound && prime(q) ==> exists|k: int| 0 <= k < ps.len() && #[trigger] ps[k] == q
}
// composites whose cofactor m/lpf(m) is below c have been written
pub open spec fn comp_done(mnp: Seq<i32>, c: int) -> bool {
    forall|m: int, p: int| 2 <= m < mnp.len() && #[trigger] is_lpf(p, m) && p < m && m / p < c ==> #[trigger] mnp[m] != 0
}
pub open spec fn outer_inv(isp: Seq<bool>, mnp: Seq<i32>, ps: Seq<i32>, i: int) -> bool {
    &&& isp.len() == mnp.len()
    &&& tab_ok(mnp)
    &&& primes_ok(ps, i)
    &&& comp_done(mnp, i)
    &&& forall|m: int| 2 <= m < i && m < mnp.len() ==> #[trigger] mnp[m] != 0
    &&& forall|m: int| i <= m < mnp.len() && #[trigger] mnp[m] != 0 ==> mnp[m] < m
    &&& forall|m: int| 0 <= m < isp.len() ==> (#[trigger] isp[m] <==> (2 <= m < i && prime(m)))
}

proof fn lemma_cofactor(p: int, m: int)
    requires is_lpf(p, m), p < m
    ensures m == p * (m / p), 2 <= m / p < m
{
    lemma_dvd_quot(p, m);
    let q = m / p;
    assert(q >= 2) by(nonlinear_arith) requires m == p * q, p < m, p >= 2;
    assert(q < m) by(nonlinear_arith) requires m == p * q, p >= 2, q >= 2;
}
proof fn lemma_lpf_unique(p: int, q: int, m: int)
    requires is_lpf(p, m), is_lpf(q, m)
    ensures p == q
{ }
proof fn lemma_lpf_le_of_divisor(p: int, m: int, l: int, i: int)
    requires is_lpf(p, m), is_lpf(l, i), dvd(i, m)
    ensures p <= l
{
    lemma_dvd_trans(l, i, m);
}


// what the inner loop has written so far for cofactor i: every prime ps[k], k < j, is <= l, fits, and its multiple is set
pub open spec fn written(mnp: Seq<i32>, ps: Seq<i32>, j: int, l: int, i: int) -> bool {
    forall|k: int| 0 <= k < j ==> #[trigger] ps[k] <= l && ps[k] * i < mnp.len() && mnp[ps[k] * i] != 0
}

// once the inner loop is done (stopped at jx), every composite with cofactor exactly i is written
proof fn lemma_inner_done(mnp: Seq<i32>, ps: Seq<i32>, jx: int, l: int, i: int)
    requires i >= 2, is_lpf(l, i), primes_ok(ps, i + 1), comp_done(mnp, i), written(mnp, ps, jx, l, i), 0 <= jx <= ps.len(),
        jx < ps.len() ==> (ps[jx] > l || ps[jx] * i >= mnp.len()),
    ensures comp_done(mnp, i + 1)
{
    assert forall|m: int, p: int| 2 <= m < mnp.len() && #[trigger] is_lpf(p, m) && p < m && m / p < i + 1 implies #[trigger] mnp[m] != 0 by {
        if m / p == i {
            lemma_cofactor(p, m);
            assert(m == p * i);
            lemma_dvd_mul(i, p);
            assert(p * i == i * p) by(nonlinear_arith);
            lemma_lpf_le_of_divisor(p, m, l, i);
            lemma_lpf_is_prime(p, m);
            assert(p <= l <= i);
            let k = choose|k: int| 0 <= k < ps.len() && #[trigger] ps[k] == p;
            if k >= jx {
                // sorted: ps[jx] <= ps[k] = p, but ps[jx] > l >= p or ps[jx]*i >= len > m = p*i
                if k > jx { assert(ps[jx] < ps[k]); }
                if ps[jx] * i >= mnp.len() {
                    assert(ps[jx] * i <= p * i) by(nonlinear_arith) requires ps[jx] <= p, i >= 2;
                }
                assert(false);
            }
            assert(ps[k] * i == m);
        }
    }
}

impl Sieve {
    pub fn new(n: usize) -> (s: Self)
        requires n < 0x7fff_fff0,
        ensures
            s.mnp@.len() == n + 1, s.isp@.len() == n + 1,
            forall|m: int| 2 <= m <= n ==> is_lpf(#[trigger] s.mnp@[m] as int, m),
            forall|m: int| 0 <= m <= n ==> (#[trigger] s.isp@[m] <==> prime(m)),
            primes_ok(s.primes@, n + 1),
    {
        let n = n + 1;
        let mut isp = vec![false; n];
        let mut mnp = vec![0i32; n];
        let mut primes = Vec::new();
        proof {
            assert(comp_done(mnp@, 2)) by {
                assert forall|m: int, p: int| 2 <= m < mnp@.len() && #[trigger] is_lpf(p, m) && p < m && m / p < 2 implies #[trigger] mnp@[m] != 0 by { lemma_cofactor(p, m); }
            }
            assert(outer_inv(isp@, mnp@, primes@, 2));
        }

        for i in 2..n
            invariant isp@.len() == n, mnp@.len() == n, n <= 0x7fff_fff0, outer_inv(isp@, mnp@, primes@, if n < 2 { 2 } else { i as int }),
        {
            let ghost ii = i as int;
            let ghost ps0 = primes@;
            if mnp[i] == 0 {
                proof {
                    // i is prime: otherwise its least prime factor p < i has cofactor < i, so mnp[i] would be set
                    let p = lemma_lpf_exists(ii);
                    if p < ii { lemma_cofactor(p, ii); assert(mnp@[ii] != 0); }
                    assert(prime(ii));
                }
                isp[i] = true;
                mnp[i] = i as i32;
                primes.push(i as i32);
            }
            let ghost l = mnp@[ii] as int;
            proof {
                assert(is_lpf(l, ii));
                assert(l < ii ==> !prime(ii));
                assert forall|q: int| 2 <= q < ii + 1 && prime(q) implies exists|k: int| 0 <= k < primes@.len() && #[trigger] primes@[k] == q by {
                    if q == ii {
                        assert(l == ii);
                        assert(primes@[primes@.len() - 1] == ii);
                    } else {
                        let k0 = choose|k: int| 0 <= k < ps0.len() && #[trigger] ps0[k] == q;
                        assert(primes@[k0] == q);
                    }
                }
                assert(primes_ok(primes@, ii + 1));
                assert(comp_done(mnp@, ii));
                assert(tab_ok(mnp@));
            }
            let ghost mut jx: int = -1;
            for j in 0..primes.len()
                invariant_except_break jx == -1, written(mnp@, primes@, j as int, l, ii),
                invariant isp@.len() == n, mnp@.len() == n, n <= 0x7fff_fff0, 2 <= i < n, ii == i as int,
                    l == mnp@[ii] as int, is_lpf(l, ii),
                    primes_ok(primes@, ii + 1), tab_ok(mnp@), comp_done(mnp@, ii),
                    forall|m: int| 2 <= m <= ii ==> #[trigger] mnp@[m] != 0,
                    forall|m: int| ii < m < n && #[trigger] mnp@[m] != 0 ==> mnp@[m] < m,
                ensures 0 <= jx <= primes@.len() || (jx == -1), 
                    written(mnp@, primes@, if jx == -1 { primes@.len() as int } else { jx }, l, ii),
                    jx != -1 ==> jx < primes@.len() && (primes@[jx] > l || primes@[jx] * ii >= n),
            {
                proof {
                    let p = primes@[j as int] as int;
                    assert(p * ii < 0x7fff_fff0 * 0x7fff_fff0) by(nonlinear_arith) requires 2 <= p < 0x7fff_fff0, 2 <= ii < 0x7fff_fff0;
                }
                if primes[j] > mnp[i] || primes[j] as usize * i >= n {
                    proof { jx = j as int; }
                    break;
                }
                proof {
                    let p = primes@[j as int] as int;
                    lemma_lpf_mul(p, ii, l);
                    assert(p * ii > ii) by(nonlinear_arith) requires p >= 2, ii >= 2;
                    assert(p < p * ii) by(nonlinear_arith) requires p >= 2, ii >= 2;
                }
                let ghost mnp_before = mnp@;
                mnp[primes[j] as usize * i] = primes[j];
                proof {
                    let p = primes@[j as int] as int;
                    assert(comp_done(mnp@, ii)) by {
                        assert forall|m: int, q: int| 2 <= m < mnp@.len() && #[trigger] is_lpf(q, m) && q < m && m / q < ii implies #[trigger] mnp@[m] != 0 by {
                            assert(mnp_before[m] != 0);
                        }
                    }
                    assert(written(mnp@, primes@, j + 1, l, ii)) by {
                        assert forall|k: int| 0 <= k < j + 1 implies #[trigger] primes@[k] <= l && primes@[k] * ii < mnp@.len() && mnp@[primes@[k] * ii] != 0 by {
                            if k < j { assert(mnp_before[primes@[k] * ii] != 0); }
                        }
                    }
                }
            }
            proof {
                let je = if jx == -1 { primes@.len() as int } else { jx };
                lemma_inner_done(mnp@, primes@, je, l, ii);
                assert(outer_inv(isp@, mnp@, primes@, ii + 1));
            }
        }

        Self { isp, mnp, primes }
    }
}
pub open spec fn old_len(ps: Seq<i32>, i: int) -> int { ps.len() as int }

use vstd::arithmetic::power::*;
pub struct PrimeIter<'a> {
    pub sieve: &'a Sieve,
    pub n: i32,
}
pub open spec fn sieve_ok(s: &Sieve) -> bool {
    &&& s.mnp@.len() >= 2 && s.mnp@.len() <= 0x7fff_fff0
    &&& s.mnp@[1] == 0
    &&& forall|m: int| 2 <= m < s.mnp@.len() ==> is_lpf(#[trigger] s.mnp@[m] as int, m)
}
impl Sieve {
    pub fn min_prime(&self, n: i32) -> (r: i32)
        requires 0 <= n < self.mnp@.len(),
        ensures r == self.mnp@[n as int],
    {
        self.mnp[n as usize]
    }
}
impl PrimeIter<'_> {
    // body of `impl Iterator for PrimeIter::next`
    fn next(&mut self) -> (r: Option<(i32, i32)>)
        requires sieve_ok(old(self).sieve), 1 <= old(self).n < old(self).sieve.mnp@.len(),
        ensures final(self).sieve == old(self).sieve, 1 <= final(self).n <= old(self).n,
            match r {
                None => old(self).n == 1 && final(self).n == 1,
                Some((p, cnt)) => is_lpf(p as int, old(self).n as int) && cnt >= 1
                    && old(self).n == final(self).n * pow(p as int, cnt as nat)
                    && !dvd(p as int, final(self).n as int),
            },
    {
        if self.n == 1 {
            return None;
        }
        let mut cnt = 0;
        let p = self.sieve.min_prime(self.n);
        let ghost n0 = self.n as int;
        proof { lemma_pow0(p as int); lemma_pow0(2); }
        while self.sieve.min_prime(self.n) == p
            invariant sieve_ok(self.sieve), self.sieve == old(self).sieve, 1 <= self.n <= n0, n0 == old(self).n, n0 < self.sieve.mnp@.len(),
                is_lpf(p as int, n0), 0 <= (cnt as int) < 32, (cnt as int) > 0 || self.n == n0,
                n0 == self.n * pow(p as int, (cnt as int) as nat),
                pow(p as int, (cnt as int) as nat) >= 1, self.n * pow(p as int, (cnt as int) as nat) < 0x8000_0000,
                pow(2, (cnt as int) as nat) <= pow(p as int, (cnt as int) as nat),
            ensures (cnt as int) >= 1, self.n == 1 || self.sieve.mnp@[self.n as int] != p,
            decreases self.n,
        {
            proof {
                let c = (cnt as int) as nat;
                assert(self.n >= 2);
                assert(is_lpf(p as int, self.n as int));
                lemma_cofactor_or_self(p as int, self.n as int);
                lemma_pow_adds(p as int, c, 1); lemma_pow1(p as int);
                let q = (self.n as int) / (p as int);
                assert(n0 == q * pow(p as int, c + 1)) by(nonlinear_arith) requires n0 == self.n * pow(p as int, c), self.n == p * q, pow(p as int, c + 1) == pow(p as int, c) * p;
                assert(pow(p as int, c + 1) >= 2 * pow(p as int, c)) by(nonlinear_arith) requires pow(p as int, c + 1) == pow(p as int, c) * p, p >= 2, pow(p as int, c) >= 1;
                lemma_pow_positive(2, c);
                lemma_pow_adds(2, c, 1); lemma_pow1(2);
                assert(pow(2, c + 1) <= pow(p as int, c + 1)) by(nonlinear_arith) requires pow(2, c + 1) == pow(2, c) * 2, pow(p as int, c + 1) == pow(p as int, c) * p, pow(2, c) <= pow(p as int, c), p >= 2, pow(2, c) >= 0;
                if c + 1 >= 32 { lemma_pow_increases(2, 31, c + 1); lemma_pow2_31(); }
                assert(pow(2, c) >= 0) by { lemma_pow_positive(2, c); }
                assert(q * pow(p as int, c + 1) >= pow(p as int, c + 1)) by(nonlinear_arith) requires q >= 1, pow(p as int, c + 1) >= 1;
            }
            cnt += 1;
            self.n = self.n / p;
        }
        proof {
            if self.n != 1 { assert(is_lpf(self.sieve.mnp@[self.n as int] as int, self.n as int)); 
                if dvd(p as int, self.n as int) {
                    // p | n' | n0 and p = lpf(n0) <= lpf(n') <= p  ==> lpf(n') == p, contradiction
                    let l = self.sieve.mnp@[self.n as int] as int;
                    assert(l <= p);
                    lemma_dvd_mul_right(l, self.n as int, pow(p as int, (cnt as int) as nat));
                    assert(l >= p);
                }
            } else { lemma_small_mod(1, p as nat); }
        }
        Some((p, cnt))
    }
}
// 2^k <= p^k is not needed; only that cnt stays small:  2^c <= p^c <= n0 < 2^31
proof fn lemma_pow2_31() ensures pow(2, 31) == 0x8000_0000 {
    reveal_with_fuel(pow, 32);
}
proof fn lemma_pow_lower(c: nat) ensures true { }
proof fn lemma_cofactor_or_self(p: int, m: int)
    requires is_lpf(p, m)
    ensures m == p * (m / p), 1 <= m / p < m
{
    lemma_dvd_quot(p, m);
    let q = m / p;
    assert(q >= 1) by(nonlinear_arith) requires m == p * q, m >= 2, p >= 2, p <= m;
    assert(q < m) by(nonlinear_arith) requires m == p * q, p >= 2, q >= 1;
}
} // verus!
fn main() {}
