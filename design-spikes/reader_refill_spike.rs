use vstd::prelude::*;
use std::io::Read;
verus! {
#[verifier::external_type_specification]
#[verifier::external_body]
pub struct ExError(std::io::Error);

#[verifier::external_trait_specification]
pub trait ExRead {
    type ExternalTraitSpecificationFor: std::io::Read;
}

// ghost state of the opaque byte source: the bytes it has not delivered yet
pub uninterp spec fn src_rest<R: ?Sized>(r: &Box<R>) -> Seq<u8>;
pub uninterp spec fn is_interrupted(e: &std::io::Error) -> bool;

pub assume_specification<R> [<std::boxed::Box<R> as std::io::Read>::read] (r: &mut std::boxed::Box<R>, buf: &mut [u8]) -> (res: std::result::Result<usize, std::io::Error>)
    where R: std::marker::MetaSized + std::io::Read + ?Sized,
    ensures
        final(buf)@.len() == old(buf)@.len(),
        match res {
            Ok(n) => {
                &&& n <= old(buf)@.len()
                &&& n <= src_rest(old(r)).len()
                &&& (n == 0 ==> (old(buf)@.len() == 0 || src_rest(old(r)).len() == 0))
                &&& final(buf)@.subrange(0, n as int) == src_rest(old(r)).subrange(0, n as int)
                &&& final(buf)@.subrange(n as int, old(buf)@.len() as int) == old(buf)@.subrange(n as int, old(buf)@.len() as int)
                &&& src_rest(final(r)) == src_rest(old(r)).skip(n as int)
            },
            Err(e) => is_interrupted(&e) && src_rest(final(r)) == src_rest(old(r)) && final(buf)@ == old(buf)@,
        };

pub struct Reader<'a> {
    pub buf: [u8; Reader::BUF_SIZE],
    pub begin: usize,
    pub end: usize,
    pub stdin: Box<dyn Read + 'a>,
    pub eof: bool,
}

impl<'a> Reader<'a> {
    const BUF_SIZE: usize = 1 << 16;

    pub closed spec fn wf(&self) -> bool {
        self.begin <= self.end <= self.buf@.len() && (self.eof ==> self.begin == self.end && src_rest(&self.stdin).len() == 0)
    }
    pub closed spec fn unread(&self) -> Seq<u8> {
        self.buf@.subrange(self.begin as int, self.end as int) + src_rest(&self.stdin)
    }

    fn refill(&mut self)
        requires old(self).wf(), old(self).begin == old(self).end,
        ensures final(self).wf(), final(self).unread() == old(self).unread(),
            final(self).eof <==> old(self).unread().len() == 0,
            !final(self).eof ==> final(self).begin < final(self).end,
    {
        if self.eof {
            return;
        }

        if self.begin != 0 {
            self.buf.copy_within(self.begin..self.end, 0);
            self.end -= self.begin;
            self.begin = 0;
        }

        let bytes = self.stdin.read(&mut self.buf[self.end..]).unwrap();
        if bytes == 0 {
            self.eof = true;
        }
        self.end += bytes;
    }
}
} // verus!
fn main() {}
