use vstd::prelude::*;
verus! {
pub trait IterMasks: Copy {
    fn next_submask(&mut self, x: Self) -> Option<Self>;
    fn zero() -> Self;
}
pub open spec fn sub64(y: u64, x: u64) -> bool { y & !x == 0 }


fn next_submask_u64(s: &mut u64, x: u64) -> (r: Option<u64>)
    requires sub64(*old(s), x),
    ensures
        *old(s) == 0 ==> r.is_none() && *final(s) == 0,
        *old(s) != 0 ==> r == Some(*old(s)) && sub64(*final(s), x) && *final(s) < *old(s)
            // nothing skipped: every submask of x below the current one is <= the next one
            && forall|y: u64| sub64(y, x) && y < *old(s) ==> y <= *final(s),
{
                if *s == 0 {
                    None
                } else {
                    let cur = *s;
                    proof {
                        let c = cur;
                        assert(c != 0 ==> ((c - 1) as u64 & x) & !x == 0) by(bit_vector);
                        assert(c != 0 && c & !x == 0 ==> ((c - 1) as u64 & x) < c) by(bit_vector);
                        assert forall|y: u64| sub64(y, x) && y < c implies y <= ((c - 1) as u64 & x) by {
                            assert(y & !x == 0 && c & !x == 0 && y < c && c != 0 ==> y <= ((c - 1) as u64 & x)) by(bit_vector);
                        }
                    }
                    *s = s.wrapping_sub(1) & x;
                    Some(cur)
                }
}
} // verus!
fn main() {}
