use vstd::prelude::*;
use std::ops::*;
verus! {
pub trait ZeroOne { const ZERO: Self; const ONE: Self; }
impl ZeroOne for i64 { const ZERO: i64 = 0 as i64; const ONE: i64 = 1 as i64; }
type T = i64;
#[derive(Clone, Copy)]
pub struct Rational<T> {
    pub a: T,
    pub b: T,
}
pub open spec fn small(v: int) -> bool { -0x4000_0000 <= v <= 0x4000_0000 }
impl Rational<T> {
    pub open spec fn wf(self) -> bool { self.b > 0 && small(self.a as int) && small(self.b as int) }
    #[verifier::external_body]
    fn norm(&mut self)
        requires old(self).b != 0, 
        ensures final(self).b > 0, final(self).a * old(self).b == old(self).a * final(self).b,
            vstd::math::abs(final(self).a as int) <= vstd::math::abs(old(self).a as int), vstd::math::abs(final(self).b as int) <= vstd::math::abs(old(self).b as int),
    { unimplemented!() }
    pub fn new(a: T, b: T) -> (r: Self)
        requires b != 0,
        ensures r.b > 0, r.a * b == a * r.b,
    {
        let mut r = Self { a, b };
        r.norm();
        r
    }
}
impl vstd::std_specs::ops::AddSpecImpl<&Rational<T>> for Rational<T> {
    open spec fn obeys_add_spec() -> bool { false }
    open spec fn add_req(self, rhs: &Rational<T>) -> bool { self.wf() && rhs.wf() }
    open spec fn add_spec(self, rhs: &Rational<T>) -> Rational<T> { self }
}
impl Add<&Self> for Rational<T> {
    type Output = Self;
    fn add(self, rhs: &Self) -> (r: Self)
        ensures r.b > 0, r.a * (self.b * rhs.b) == (self.a * rhs.b + self.b * rhs.a) * r.b,
    {
        proof {
            assert(self.a * rhs.b <= 0x4000_0000 * 0x4000_0000 && self.a * rhs.b >= -(0x4000_0000 * 0x4000_0000)) by(nonlinear_arith) requires small(self.a as int), small(rhs.b as int);
            assert(self.b * rhs.a <= 0x4000_0000 * 0x4000_0000 && self.b * rhs.a >= -(0x4000_0000 * 0x4000_0000)) by(nonlinear_arith) requires small(self.b as int), small(rhs.a as int);
            assert(0 < self.b * rhs.b <= 0x4000_0000 * 0x4000_0000) by(nonlinear_arith) requires small(self.b as int), small(rhs.b as int), self.b > 0, rhs.b > 0;
        }
        Self::new(self.a * &rhs.b + &(self.b.clone() * &rhs.a), self.b * &rhs.b)
    }
}
} // verus!
fn main() {}
