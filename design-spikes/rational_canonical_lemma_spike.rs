use vstd::prelude::*;
use vstd::arithmetic::div_mod::*;
use vstd::arithmetic::mul::*;
verus! {
pub open spec fn dvd(d: int, m: int) -> bool { d > 0 && m % d == 0 }
pub open spec fn is_lpf(p: int, m: int) -> bool {
    2 <= p <= m && dvd(p, m) && forall|d: int| 2 <= d < p ==> !#[trigger] dvd(d, m)
}
pub open spec fn prime(m: int) -> bool { is_lpf(m, m) }

pub proof fn lemma_dvd_mul(d: int, k: int)
    requires d > 0
    ensures dvd(d, d * k), dvd(d, k * d)
{
    lemma_mod_multiples_basic(k, d);
    assert(d * k == k * d) by(nonlinear_arith);
}
pub proof fn lemma_dvd_quot(d: int, m: int)
    requires dvd(d, m)
    ensures m == d * (m / d)
{
    lemma_fundamental_div_mod(m, d);
}
pub proof fn lemma_dvd_sub(d: int, a: int, b: int)
    requires dvd(d, a), dvd(d, b)
    ensures dvd(d, a - b), dvd(d, a + b)
{
    lemma_dvd_quot(d, a); lemma_dvd_quot(d, b);
    assert(a - b == d * (a / d - b / d)) by(nonlinear_arith) requires a == d * (a / d), b == d * (b / d);
    assert(a + b == d * (a / d + b / d)) by(nonlinear_arith) requires a == d * (a / d), b == d * (b / d);
    lemma_dvd_mul(d, a / d - b / d); lemma_dvd_mul(d, a / d + b / d);
}
pub proof fn lemma_dvd_mul_right(d: int, a: int, k: int)
    requires dvd(d, a)
    ensures dvd(d, a * k), dvd(d, k * a)
{
    lemma_dvd_quot(d, a);
    assert(a * k == d * ((a / d) * k)) by(nonlinear_arith) requires a == d * (a / d);
    lemma_dvd_mul(d, (a / d) * k);
    assert(a * k == k * a) by(nonlinear_arith);
}
pub proof fn lemma_dvd_le(d: int, m: int)
    requires dvd(d, m), m > 0
    ensures d <= m
{
    lemma_dvd_quot(d, m);
    if d > m { assert(m / d == 0) by { lemma_basic_div(m, d); } assert(d * 0 == 0); }
}
pub proof fn lemma_dvd_trans(a: int, b: int, c: int)
    requires dvd(a, b), dvd(b, c)
    ensures dvd(a, c)
{
    lemma_dvd_quot(b, c);
    lemma_dvd_mul_right(a, b, c / b);
}

// every m >= 2 has a least prime factor
pub proof fn lemma_lpf_exists(m: int) -> (p: int)
    requires m >= 2
    ensures is_lpf(p, m)
{
    lemma_lpf_search(m, 2)
}
proof fn lemma_lpf_search(m: int, c: int) -> (p: int)
    requires m >= 2, 2 <= c <= m, forall|d: int| 2 <= d < c ==> !#[trigger] dvd(d, m)
    ensures is_lpf(p, m)
    decreases m - c
{
    if dvd(c, m) { c } else {
        assert(c < m) by { if c == m { lemma_mod_self_0(m); } }
        lemma_lpf_search(m, c + 1)
    }
}
pub proof fn lemma_lpf_is_prime(p: int, m: int)
    requires is_lpf(p, m)
    ensures prime(p)
{
    lemma_mod_self_0(p);
    assert forall|d: int| 2 <= d < p implies !#[trigger] dvd(d, p) by {
        if dvd(d, p) { lemma_dvd_trans(d, p, m); }
    }
}

// Euclid's lemma by descent on a
pub proof fn lemma_euclid(r: int, a: int, b: int)
    requires prime(r), a >= 1, b >= 1, dvd(r, a * b)
    ensures dvd(r, a) || dvd(r, b)
    decreases a
{
    if dvd(r, a) { return; }
    if a >= r {
        let a2 = a % r; let q = a / r;
        lemma_fundamental_div_mod(a, r);
        assert(a2 >= 1);
        // r | a2*b = a*b - q*r*b
        assert(a2 * b == a * b - r * (q * b)) by(nonlinear_arith) requires a == r * q + a2;
        lemma_dvd_mul(r, q * b);
        lemma_dvd_sub(r, a * b, r * (q * b));
        lemma_euclid(r, a2, b);
        if dvd(r, a2) { lemma_small_mod(a2 as nat, r as nat); }
    } else {
        if a == 1 { assert(1 * b == b); return; }
        let s = r % a; let q = r / a;
        lemma_fundamental_div_mod(r, a);
        if s == 0 {
            assert(dvd(a, r));
            assert(false);
        } else {
            assert(s * b == r * b - q * (a * b)) by(nonlinear_arith) requires r == a * q + s;
            lemma_dvd_mul(r, b);
            lemma_dvd_mul_right(r, a * b, q);
            lemma_dvd_sub(r, r * b, q * (a * b));
            lemma_euclid(r, s, b);
            if dvd(r, s) { lemma_small_mod(s as nat, r as nat); }
        }
    }
}

// least prime factor of a product p*i when p is prime and p <= lpf(i)
pub proof fn lemma_lpf_mul(p: int, i: int, l: int)
    requires prime(p), i >= 2, is_lpf(l, i), p <= l
    ensures is_lpf(p, p * i)
{
    lemma_dvd_mul(p, i);
    assert(p * i >= p) by(nonlinear_arith) requires p >= 2, i >= 2;
    assert forall|d: int| 2 <= d < p implies !#[trigger] dvd(d, p * i) by {
        if dvd(d, p * i) {
            let r = lemma_lpf_exists(d);
            lemma_lpf_is_prime(r, d);
            lemma_dvd_trans(r, d, p * i);
            lemma_euclid(r, p, i);
            // r < p <= l: r does not divide p (p prime) nor i (l is lpf of i)
            assert(!dvd(r, p));
            assert(!dvd(r, i));
        }
    }
}

pub open spec fn sgcd(a: nat, b: nat) -> nat decreases b { if b == 0 { a } else { sgcd(b, a % b) } }

// Bezout: gcd is an integer combination
pub proof fn lemma_bezout(a: nat, b: nat) -> (uv: (int, int))
    ensures a * uv.0 + b * uv.1 == sgcd(a, b)
    decreases b
{
    if b == 0 { assert(a * 1 + 0 * 0 == a) by(nonlinear_arith); (1, 0) } else {
        let (u, v) = lemma_bezout(b, a % b);
        lemma_fundamental_div_mod(a as int, b as int);
        let q = (a / b) as int; let r = (a % b) as int;
        assert(a * v + b * (u - q * v) == b * u + r * v) by(nonlinear_arith) requires a == b * q + r;
        (v, u - q * v)
    }
}
// Gauss: gcd(a,b)=1 and b | a*c  ==>  b | c
pub proof fn lemma_gauss(a: nat, b: nat, c: int)
    requires sgcd(a, b) == 1, b > 0, dvd(b as int, a * c)
    ensures dvd(b as int, c)
{
    let (u, v) = lemma_bezout(a, b);
    // c = c*(a*u + b*v) = (a*c)*u + b*(c*v)
    assert(c == (a * c) * u + b * (c * v)) by(nonlinear_arith) requires a * u + b * v == 1;
    lemma_dvd_mul_right(b as int, a * c, u);
    lemma_dvd_mul(b as int, c * v);
    lemma_dvd_sub(b as int, (a * c) * u, b * (c * v));
}
pub open spec fn nabs(x: int) -> nat { if x < 0 { (-x) as nat } else { x as nat } }
pub open spec fn canon(a: int, b: int) -> bool { b > 0 && sgcd(nabs(a), b as nat) == 1 }

proof fn lemma_dvd_abs(d: int, x: int)
    requires d > 0
    ensures dvd(d, x) == dvd(d, nabs(x) as int)
{
    if x < 0 {
        if dvd(d, x) { lemma_dvd_sub(d, 0, x); lemma_small_mod(0, d as nat); }
        if dvd(d, -x) { lemma_dvd_sub(d, 0, -x); lemma_small_mod(0, d as nat); }
    }
}

// canonical representations of the same value are identical  (derived Eq / Hash clause of C07)
pub proof fn lemma_canon_unique(a1: int, b1: int, a2: int, b2: int)
    requires canon(a1, b1), canon(a2, b2), a1 * b2 == a2 * b1
    ensures a1 == a2, b1 == b2
{
    // b1 | a1*b2 and gcd(|a1|, b1) = 1  ==>  b1 | b2 ; symmetric
    lemma_dvd_mul(b1, a2); lemma_dvd_mul(b2, a1);
    assert(dvd(b1, a1 * b2));
    assert(dvd(b2, a2 * b1));
    lemma_dvd_abs(b1, a1 * b2); lemma_dvd_abs(b2, a2 * b1);
    assert(nabs(a1 * b2) == nabs(a1) * b2) by(nonlinear_arith) requires b2 > 0;
    assert(nabs(a2 * b1) == nabs(a2) * b1) by(nonlinear_arith) requires b1 > 0;
    lemma_gauss(nabs(a1), b1 as nat, b2);
    lemma_gauss(nabs(a2), b2 as nat, b1);
    lemma_dvd_le(b1, b2); lemma_dvd_le(b2, b1);
    assert(a1 == a2) by(nonlinear_arith) requires a1 * b2 == a2 * b1, b1 == b2, b1 > 0;
}
} // verus!
fn main() {}
