use vstd::prelude::*;
use vstd::seq_lib::*;
verus! {
global size_of usize == 8;
type T = u32;
pub assume_specification<E> [<[E]>::swap] (s: &mut [E], a: usize, b: usize)
    requires a < old(s)@.len(), b < old(s)@.len(),
    ensures final(s)@ == old(s)@.update(a as int, old(s)@[b as int]).update(b as int, old(s)@[a as int]);
pub assume_specification<E> [<[E]>::reverse] (s: &mut [E])
    ensures final(s)@ == old(s)@.reverse();

pub open spec fn lex_lt(a: Seq<T>, b: Seq<T>) -> bool {
    a.len() == b.len() && exists|k: int| 0 <= k < a.len() && #[trigger] a[k] < b[k] && a.subrange(0, k) == b.subrange(0, k)
}
pub open spec fn nonincr(a: Seq<T>, from: int) -> bool { forall|i: int, j: int| from <= i < j < a.len() ==> a[i] >= a[j] }
pub open spec fn nondecr(a: Seq<T>) -> bool { forall|i: int, j: int| 0 <= i < j < a.len() ==> a[i] <= a[j] }

proof fn lemma_swap_multiset(s: Seq<T>, a: int, b: int)
    requires 0 <= a < s.len(), 0 <= b < s.len()
    ensures s.update(a, s[b]).update(b, s[a]).to_multiset() == s.to_multiset()
{
    let s1 = s.update(a, s[b]);
    let s2 = s1.update(b, s[a]);
    to_multiset_update(s, a, s[b]);
    to_multiset_update(s1, b, s[a]);
    assert(s1[b] == s[b]);
    let m = s.to_multiset();
    s.to_multiset_ensures();
    assert(m.count(s[a]) > 0) by { assert(s.contains(s[a])); }
    assert(m.count(s[b]) > 0) by { assert(s.contains(s[b])); }
    assert forall|x: T| s2.to_multiset().count(x) == m.count(x) by { }
    assert(s2.to_multiset() =~= m);
}
proof fn lemma_suffix_reverse_multiset(s: Seq<T>, i: int)
    requires 0 <= i <= s.len()
    ensures (s.subrange(0, i) + s.subrange(i, s.len() as int).reverse()).to_multiset() == s.to_multiset()
{
    let p = s.subrange(0, i); let q = s.subrange(i, s.len() as int);
    lemma_multiset_commutative(p, q.reverse());
    lemma_multiset_commutative(p, q);
    q.lemma_reverse_to_multiset();
    assert(p + q =~= s);
}

pub fn next_permutation(data: &mut [T]) -> (r: bool)
    ensures
        final(data)@.to_multiset() == old(data)@.to_multiset(),
        r ==> lex_lt(old(data)@, final(data)@),
        !r ==> nonincr(old(data)@, 0) && nondecr(final(data)@),
{
    let ghost d0 = data@;
    for i in it: (1..data.len()).rev()
        invariant data@ == d0, d0 == old(data)@, it.seq().len() == (if d0.len() >= 1 { d0.len() - 1 } else { 0 }),
            forall|k: int| 0 <= k < it.seq().len() ==> it.seq()[k] == d0.len() - 1 - k,
            nonincr(d0, d0.len() - 1 - it.index@),
    {
        if data[i - 1] < data[i] {
            let mut j = i;
            while j + 1 < data.len() && data[j + 1] > data[i - 1]
                invariant data@ == d0, i <= j < d0.len(), 1 <= i, d0[j as int] > d0[i - 1],
                decreases d0.len() - j,
            {
                j += 1;
            }
            data.swap(i - 1, j);
            let ghost d1 = data@;
            data[i..].reverse();
            proof {
                lemma_swap_multiset(d0, i - 1, j as int);
                assert(data@ =~= d1.subrange(0, i as int) + d1.subrange(i as int, d1.len() as int).reverse());
                lemma_suffix_reverse_multiset(d1, i as int);
                assert(data@.subrange(0, i - 1) =~= d0.subrange(0, i - 1));
                assert(data@[i - 1] == d0[j as int]);
            }
            return true;
        }
    }
    data.reverse();
    proof {
        d0.lemma_reverse_to_multiset();
        assert(nonincr(d0, 0));
    }
    false
}
} // verus!
fn main() {}
